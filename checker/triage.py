#!/usr/bin/env python3
import json,sys
r=json.load(open(sys.argv[1]))
for h in r['harnesses']:
    for v in h.get('violations') or []:
        m={k:x for k,x in v['model'].items() if x not in ('0x0',)}
        print(h['name'], v['kind'], v['msg'], '@', v['site'].split('(')[-1], 'path', v['path'][:12])
        print('    model:', dict(list(m.items())[:14]))
    for k in h.get('panic_paths') or {}:
        print(h['name'], 'PANIC', k[:200])
    for k in (h.get('unsupported') or []):
        print(h['name'], 'UNSUPPORTED', k[:300])
