#!/usr/bin/env python3
"""check <property-id> [quick|thorough] [--replay <file>]

Runs the symbolic engine (/verif/bin/symgo) on the property's harnesses against
/repo's current working tree, replays any counterexample natively, writes
/verif/evidence/<id>.json, prints VIOLATION / KNOWN-FINDING lines.
Exit: 0 held on everything explored; 1 violation; 2 engine/harness error.
"""
import json, os, subprocess, sys, time, tempfile, shutil, re, hashlib

VERIF = "/verif"
REPO = os.environ.get("VERIF_REPO", "/repo")
GOBIN = "/opt/veriftools/go1.26.8/bin"
sys.path.insert(0, os.path.join(VERIF, "checker"))
from props import PROPS  # noqa


def goenv():
    e = dict(os.environ)
    e["PATH"] = GOBIN + ":" + e.get("PATH", "")
    e.update(GOFLAGS="-mod=mod", GOPROXY="off", GOTOOLCHAIN="local", GOWORK="off")
    e.pop("GOSUMDB", None)
    return e


def ensure_engine():
    b = os.path.join(VERIF, "bin/symgo")
    src_m = max(os.path.getmtime(os.path.join(VERIF, "engine", f)) for f in os.listdir(os.path.join(VERIF, "engine")))
    if not os.path.exists(b) or os.path.getmtime(b) < src_m:
        r = subprocess.run(["bash", os.path.join(VERIF, "setup.sh")], capture_output=True, text=True)
        if r.returncode != 0:
            print("ERROR engine-build", r.stderr[-2000:])
            sys.exit(2)
    return b


def load_known():
    out = []
    p = os.path.join(VERIF, "known_findings.jsonl")
    if os.path.exists(p):
        for l in open(p):
            l = l.strip()
            if l and not l.startswith("#"):
                out.append(json.loads(l))
    return out


def match_known(known, pid, v):
    for k in known:
        if k.get("status") != "open" or k.get("property") != pid:
            continue
        if k.get("harness") and k["harness"] != v["harness"]:
            continue
        if k.get("kind") and k["kind"] != v["kind"]:
            continue
        if k.get("site_func") and k["site_func"] not in v.get("site", ""):
            continue
        if k.get("msg") and k["msg"] not in v.get("msg", ""):
            continue
        return k
    return None


def prepare_run(pid, run, engine):
    """Resolve harness files (generating codec harnesses from /repo's current source where asked)."""
    files = [h if os.path.isabs(h) else os.path.join(VERIF, h) for h in run.get("harness", [])]
    gen = run.get("gen")
    if gen:
        d = os.path.join(VERIF, "replays", pid)
        os.makedirs(d, exist_ok=True)
        out = os.path.join(d, "gen_%s.go" % run["pkg"].replace("/", "_"))
        cmd = [engine, "-repo", REPO, "-pkg", run["pkg"], "-gencodecs", out, "-genskip", ",".join(gen.get("skip", []))]
        if gen.get("support"):
            cmd += ["-gensupport", os.path.join(VERIF, gen["support"])]
        r = subprocess.run(cmd, capture_output=True, text=True, env=goenv())
        if r.returncode != 0:
            raise RuntimeError("codec harness generation failed: " + r.stderr[-800:])
        files = [out] + files
        if gen.get("support"):
            files.append(os.path.join(VERIF, gen["support"]))
    inject = [(p, f if os.path.isabs(f) else os.path.join(VERIF, f)) for p, f in run.get("inject", [])]
    return files, inject


def native_replay(pid, run, v, idx, params):
    """Replay a counterexample against the real build. Returns (path, outcome)."""
    d = os.path.join(VERIF, "replays", pid)
    os.makedirs(d, exist_ok=True)
    path = os.path.join(d, "%s-%d.json" % (v["harness"], idx))
    rec = {"property": pid, "harness": v["harness"], "pkg": run["pkg"], "harness_files": run["_files"], "inject": run["_inject"],
           "kind": v["kind"], "msg": v["msg"], "site": v["site"], "model": v["model"], "params": params,
           "decision_path": v.get("path"), "solver_status": v.get("status")}
    json.dump(rec, open(path, "w"), indent=1)
    outcome = run_native(run["pkg"], run["_files"], v["harness"], path, inject=run["_inject"])
    rec["native_outcome"] = outcome
    json.dump(rec, open(path, "w"), indent=1)
    return path, outcome


def run_native(pkg, harness_files, fn, vecpath, seed=None, timeout=600, seeds=None, inject=None):
    """fn: harness name (replay) or list of names with seeds=[...] (translator validation; returns dict)."""
    tmp = tempfile.mkdtemp(prefix="vhreplay-")
    try:
        ov = {"Replace": {}}
        ov["Replace"][os.path.join(REPO, "internal/vh/vh.go")] = os.path.join(VERIF, "vh/native/vh.go")
        for h in harness_files:
            ov["Replace"][os.path.join(REPO, pkg, "zz_vh_" + os.path.basename(h))] = h if os.path.isabs(h) else os.path.join(VERIF, h)
        for pdir, f in (inject or []):
            ov["Replace"][os.path.join(REPO, pdir, "zz_vh_" + os.path.basename(f))] = f if os.path.isabs(f) else os.path.join(VERIF, f)
        pkgname = None
        for l in open(os.path.join(VERIF, harness_files[0])):
            m = re.match(r"package\s+(\w+)", l)
            if m:
                pkgname = m.group(1)
                break
        test = os.path.join(tmp, "zz_vh_replay_test.go")
        with open(test, "w") as f:
            f.write("package %s\n\nimport (\n\t\"testing\"\n\t\"go.sia.tech/core/internal/vh\"\n)\n\n" % pkgname)
            if seeds is None:
                f.write("func TestVHReplay(t *testing.T) {\n\tvh.RunReplay(%s, %s)\n}\n" % (json.dumps(fn), fn))
            else:
                f.write("func TestVHReplay(t *testing.T) {\n")
                for name in fn:
                    for sd in seeds:
                        f.write("\tvh.ResetRandom(%d)\n\tvh.RunReplay(%s, %s)\n" % (sd, json.dumps("%s#%d" % (name, sd)), name))
                f.write("}\n")
        ov["Replace"][os.path.join(REPO, pkg, "zz_vh_replay_test.go")] = test
        ovp = os.path.join(tmp, "overlay.json")
        json.dump(ov, open(ovp, "w"))
        env = goenv()
        if vecpath:
            env["VH_REPLAY"] = vecpath
        if seed is not None:
            env["VH_RANDOM_SEED"] = str(seed)
        env["GOCACHE"] = os.environ.get("GOCACHE", os.path.expanduser("~/.cache/go-build"))
        try:
            r = subprocess.run(["go", "test", "-v", "-vet=off", "-count=1", "-overlay", ovp, "-run", "^TestVHReplay$", "./" + pkg],
                               cwd=REPO, env=env, capture_output=True, text=True, timeout=timeout)
        except subprocess.TimeoutExpired:
            return "timeout"
        if seeds is not None:
            return dict(re.findall(r"VH-REPLAY (\S+) => (.*)", r.stdout)) or {"build": "no-outcome: " + (r.stdout + r.stderr)[-400:]}
        m = re.search(r"VH-REPLAY \S+ => (.*)", r.stdout)
        if m:
            return m.group(1).strip()
        return "no-outcome: " + (r.stdout + r.stderr)[-400:]
    finally:
        shutil.rmtree(tmp, ignore_errors=True)


def outcome_confirms(v, outcome):
    if v["kind"] == "assert":
        return outcome.startswith("assert-failed")
    if v["kind"] == "panic":
        return outcome.startswith("panic")
    if v["kind"] == "alloc":
        return outcome.startswith("panic") or "out of memory" in outcome
    return False


def replay_cmd(path):
    rec = json.load(open(path))
    if rec.get("kind") == "unreachable-acceptance":
        # an unsat verdict has no input to replay: re-run the check that produced it
        print("replay %s: %s" % (path, rec["explanation"]))
        print("re-run: %s" % rec["replay"])
        return 1
    out = run_native(rec["pkg"], rec["harness_files"], rec["harness"], path, inject=rec.get("inject"))
    print("replay %s: %s (expected %s: %s)" % (path, out, rec["kind"], rec["msg"]))
    return 1 if outcome_confirms(rec, out) else 0


def main():
    args = sys.argv[1:]
    if len(args) >= 2 and args[0] == "--replay":
        sys.exit(replay_cmd(args[1]))
    if not args:
        print(__doc__)
        sys.exit(2)
    pid = args[0]
    tier = os.environ.get("VERIF_TIER") or (args[1] if len(args) > 1 else "quick")
    if len(args) > 1 and args[1] in ("quick", "thorough"):
        tier = args[1]
    seed = int(os.environ.get("VERIF_SEED", "1"))
    if pid not in PROPS:
        print("ERROR unknown property", pid)
        sys.exit(2)
    spec = PROPS[pid]
    t0 = time.time()
    engine = ensure_engine()
    known = load_known()
    jobs = os.environ.get("VERIF_JOBS", "16")
    tmpdir = tempfile.mkdtemp(prefix="symgo-%s-" % pid)
    all_h = []
    engine_errors = []
    violations = []
    known_hits = []
    replays = []
    runs_meta = []
    try:
        for ri, run in enumerate(spec["runs"]):
            if tier == "quick" and run.get("thorough_only"):
                continue
            params = dict(run.get("params", {}).get(tier, {}))
            out = os.path.join(tmpdir, "run%d.json" % ri)
            try:
                run["_files"], run["_inject"] = prepare_run(pid, run, engine)
            except RuntimeError as ex:
                engine_errors.append(str(ex))
                continue
            cmd = [engine, "-repo", REPO, "-pkg", run["pkg"], "-harness", ",".join(run["_files"]),
                   "-run", run.get("run", "^VH_"), "-out", out, "-j", jobs]
            if run.get("skip"):
                cmd += ["-skip", run["skip"]]
            if run["_inject"]:
                cmd += ["-inject", ",".join("%s=%s" % pf for pf in run["_inject"])]
            if params:
                cmd += ["-p", ",".join("%s=%d" % kv for kv in params.items())]
            cmd += run.get("flags", {}).get(tier, [])
            limit = int(os.environ.get("VERIF_RUN_TIMEOUT", "2400" if tier == "quick" else "28800"))
            try:
                r = subprocess.run(cmd, capture_output=True, text=True, env=goenv(), timeout=limit)
            except subprocess.TimeoutExpired:
                engine_errors.append("run %d (%s): exceeded the %d s limit" % (ri, run.get("run"), limit))
                continue
            if r.returncode != 0 or not os.path.exists(out):
                engine_errors.append("run %d: exit %d: %s" % (ri, r.returncode, r.stderr[-1500:]))
                continue
            res = json.load(open(out))
            runs_meta.append({"pkg": run["pkg"], "harness_files": [os.path.relpath(f, VERIF) for f in run["_files"]], "params": params, "flags": run.get("flags", {}).get(tier, []),
                              "load_s": res["load_s"], "wall_s": res["wall_s"], "solver": res["solver"]})
            for e in res.get("errors") or []:
                engine_errors.append(e)
            for h in res["harnesses"]:
                h["_run"] = ri
                all_h.append(h)
                for u in h.get("unsupported") or []:
                    engine_errors.append("%s: unsupported: %s" % (h["name"], u))
                for u in h.get("incomplete") or []:
                    engine_errors.append("%s: incomplete: %s" % (h["name"], u))
                # reach twins: every tag listed in spec must have been reached
                for tag in run.get("must_reach", {}).get(h["name"], []):
                    if not h.get("reach_tags", {}).get(tag):
                        engine_errors.append("%s: reach tag %r never reached (vacuity guard)" % (h["name"], tag))
                # acceptance witnesses: the property says inputs of this kind ARE accepted (a rule flips exactly at
                # its bound, not earlier). If the exploration was complete and no input reaches the tag, the real
                # code is stricter than the property allows: a violation, not a vacuity problem.
                complete = not (h.get("unsupported") or h.get("incomplete") or h.get("unknown_queries"))
                for tag in run.get("must_accept", {}).get(h["name"], []):
                    if h.get("reach_tags", {}).get(tag):
                        continue
                    if not complete:
                        engine_errors.append("%s: acceptance witness %r not reached, but the exploration is incomplete" % (h["name"], tag))
                        continue
                    os.makedirs(os.path.join(VERIF, "replays", pid), exist_ok=True)
                    rp = os.path.join(VERIF, "replays", pid, "%s-unreachable-%s.json" % (h["name"], tag))
                    json.dump({"property": pid, "harness": h["name"], "kind": "unreachable-acceptance", "tag": tag, "paths": h["paths"],
                               "explanation": "every path of the harness was explored to completion with all queries decided and no input reaches the point tagged %r, which the property requires to be reachable (acceptance exactly at the bound)" % tag,
                               "replay": "./check %s %s  (the verdict is an unsat result: there is no input to replay)" % (pid, tier)}, open(rp, "w"), indent=1)
                    v = {"harness": h["name"], "kind": "unreachable-acceptance", "msg": "no input reaches %r: the code rejects what the property says is accepted" % tag, "site": h["name"], "model": {}}
                    k = match_known(known, pid, v)
                    if k:
                        known_hits.append((k, v))
                        continue
                    violations.append({"v": v, "replay": rp, "native": "n/a (unsat verdict)", "confirmed": True})
                for vi, v in enumerate(h.get("violations") or []):
                    k = match_known(known, pid, v)
                    if k:
                        known_hits.append((k, v))
                        continue
                    path, outcome = native_replay(pid, run, v, vi, params)
                    confirmed = outcome_confirms(v, outcome)
                    violations.append({"v": v, "replay": path, "native": outcome, "confirmed": confirmed})
    finally:
        shutil.rmtree(tmpdir, ignore_errors=True)

    # translator validation: run harnesses natively on seeded random vectors
    tv = 0
    tv_fail = []
    ntv = spec.get("tv_runs", {}).get(tier, 0)
    for run in spec["runs"]:
        if tier == "quick" and run.get("thorough_only"):
            continue
        if ntv and run.get("tv_harnesses") and "_files" in run:
            outs = run_native(run["pkg"], run["_files"], run["tv_harnesses"], None, seeds=[seed * 1000 + k for k in range(ntv)], inject=run["_inject"])
            for name, out in outs.items():
                tv += 1
                out = out.strip()
                if not (out == "passed" or out == "assume-failed"):
                    tv_fail.append("%s: %s" % (name, out))
            if len(outs) < ntv * len(run["tv_harnesses"]):
                tv_fail.append("translator validation produced %d of %d outcomes" % (len(outs), ntv * len(run["tv_harnesses"])))

    wall = time.time() - t0
    states = sum(h["paths"] for h in all_h)
    transitions = sum(h["ssa_instructions"] for h in all_h)
    oblig = sum(h["obligations"] for h in all_h)
    disch = sum(h["discharged"] for h in all_h)
    queries = sum(h["solver_queries"] for h in all_h)
    structural = sum(h["discharged_structurally"] for h in all_h)
    fns = sorted({f for h in all_h for f in (h.get("functions_encoded") or []) if "go.sia.tech/core" in f and "/internal/vh" not in f})
    samples = []
    for h in all_h:
        for s in (h.get("samples") or [])[:2]:
            samples.append(s)
    if not samples:
        samples = ["%s: %d paths, %d obligations (all closed by the simplifier)" % (h["name"], h["paths"], h["obligations"]) for h in all_h[:5]]
    nviol = len(violations)
    if disch < oblig and not violations and not known_hits and not engine_errors:
        # every undischarged obligation must surface as a violation, a known finding or an incompleteness
        engine_errors.append("%d of %d obligations were not discharged but nothing was reported (engine inconsistency)" % (oblig - disch, oblig))
    ev = {
        "property_id": pid, "tier": tier, "seed": seed, "level": "model_checking",
        "coverage": {
            "states": max(states, 1), "transitions": max(transitions, 1),
            "traces_validated_against_impl": tv,
            "samples": samples[:12],
            "obligations": oblig, "discharged": disch, "discharged_structurally": structural,
            "evaluations": queries, "distinct_nontrivial": sum(h.get("distinct_queries", 0) for h in all_h),
            "rule": "states = symbolic paths of the real SSA explored to completion; evaluations = SMT queries issued (branch feasibility + obligations); distinct_nontrivial = distinct (obligation, path) queries not closed by the term simplifier",
            "harnesses": [{"name": h["name"], "paths": h["paths"], "completed": h["completed_paths"], "obligations": h["obligations"], "discharged": h["discharged"],
                           "queries": h["solver_queries"], "unknown": h.get("unknown_queries", 0), "solver_time_s": round(h.get("solver_time_s", 0), 2),
                           "wall_s": round(h.get("wall_s", 0), 2), "reach_tags": h.get("reach_tags"), "panic_paths": h.get("panic_paths"),
                           "infeasible_paths": h.get("infeasible_paths", 0)} for h in all_h],
            "functions_encoded": fns,
            "bounds": spec.get("bounds", {}).get(tier, spec.get("bounds", {})),
            "outside_bounds": spec.get("outside", []),
            "stubs": spec.get("stubs", []),
            "runs": runs_meta,
            "solver_time_s": round(sum(h.get("solver_time_s", 0) for h in all_h), 2),
            "incomplete_or_errors": engine_errors,
            "translator_validation_failures": tv_fail,
            "known_findings_matched": [k["id"] for k, _ in known_hits],
            "violations_detail": [{"harness": x["v"]["harness"], "kind": x["v"]["kind"], "msg": x["v"]["msg"], "site": x["v"]["site"],
                                   "native": x["native"], "confirmed_natively": x["confirmed"], "replay": x["replay"]} for x in violations],
        },
        "assumptions": spec.get("assumptions", []),
        "wall_s": round(wall, 2),
        "violations": nviol,
    }
    evdir = os.environ.get("VERIF_EVIDENCE_DIR") or os.path.join(VERIF, "evidence")  # seed experiments write elsewhere
    os.makedirs(evdir, exist_ok=True)
    json.dump(ev, open(os.path.join(evdir, pid + ".json"), "w"), indent=1)

    seen = set()
    for k, v in known_hits:
        if k["id"] in seen:
            continue
        seen.add(k["id"])
        print("KNOWN-FINDING: property=%s %s" % (pid, k["what"]))
    for x in violations:
        tag = "" if x["confirmed"] else " confirmed=symbolic-only"
        print("VIOLATION property=%s replay=%s%s  # %s: %s @ %s (native: %s)" % (pid, x["replay"], tag, x["v"]["kind"], x["v"]["msg"], x["v"]["site"], x["native"]))
    print("%s %s: paths=%d obligations=%d/%d queries=%d violations=%d known=%d tv=%d wall=%.1fs" % (pid, tier, states, disch, oblig, queries, nviol, len(seen), tv, wall))
    if nviol:
        sys.exit(1)
    if engine_errors or tv_fail:
        for e in engine_errors[:20]:
            print("ERROR", e)
        for e in tv_fail[:20]:
            print("ERROR translator-validation", e)
        sys.exit(2)
    sys.exit(0)


if __name__ == "__main__":
    main()
