# Per-property check specifications. Paths are relative to /verif.
COMMON_ASSUME = [
    "SMT solver verdicts (z3 4.8.12) are trusted; unknown/timeout is reported as an error, never as a pass",
    "the SSA->SMT encoder is ours (engine/); it is cross-checked by native replay of every counterexample and by translator-validation runs of the same harness natively",
]
IDEAL_CRYPTO = [
    "BLAKE2b/SHA-256 are ideal: an injective uninterpreted function per input length, disjoint across lengths; constant inputs are additionally pinned to their real digests",
    "ed25519.Verify is an uninterpreted predicate sigok(pk,msg,sig)",
]

PROPS = {}

PROPS["C15"] = {
    "runs": [
        {"pkg": "types", "harness": ["harness/c15/c15.go"], "run": "^VH_C15_",
         "params": {"quick": {}, "thorough": {}},
         "flags": {"quick": ["-timeout", "120000"], "thorough": ["-timeout", "600000"]},
         "tv_harnesses": ["VH_C15_Add", "VH_C15_Sub", "VH_C15_Cmp", "VH_C15_Mul64"]},
    ],
    "tv_runs": {"quick": 2, "thorough": 8},
    "bounds": {"quick": "full 128-bit operands, no loops", "thorough": "same"},
    "outside": ["text forms (String/Format/ParseCurrency/JSON): math/big decimal conversion and big.Rat are not encodable",
                "quoRem with a symbolic 128-bit divisor (non-linear trial-quotient argument; undecided by all three solvers even at width 8)"],
    "stubs": ["math/bits.Add64/Sub64/Mul64/Div64 replaced by their exact bit-vector definitions"],
    "assumptions": COMMON_ASSUME,
}

NOT_APPLICABLE = {
    "C20": "text/JSON forms are implemented by reflection-driven encoding/json, fmt.Sscanf, strconv and math/big decimal conversion: library code with input-length loops that cannot be lowered to SMT within reach; the checksum clause is only probabilistically true (48-bit truncated hash), which an injective ideal hash cannot express",
}

MANIFEST_TEXT = {
    "C15": {
        "text": "Bounded-model-checking level, here without any bound on operand values: for all 2^128 x 2^128 operand pairs the real SSA of Add/Sub/Cmp/Mul64 (and their panicking wrappers) is executed symbolically and z3 proves each result/flag/panic condition equal to an independent limb-wise reference. The functions are loop-free, so the result is complete for these operations.",
        "note": "Trusted: z3, our SSA->SMT encoder (cross-checked by native replay and translator-validation runs), exact BV definitions of math/bits intrinsics. Outside the claim: text forms; quoRem with symbolic 128-bit divisor.",
    },
}
