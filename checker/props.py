# Per-property check specifications. Paths are relative to /verif.
COMMON_ASSUME = [
    "SMT solver verdicts (z3 4.8.12) are trusted; unknown/timeout is reported as an error, never as a pass",
    "the SSA->SMT encoder is ours (engine/); it is cross-checked by native replay of every counterexample and by translator-validation runs of the same harness natively",
]
IDEAL_CRYPTO = [
    "BLAKE2b/SHA-256 are ideal: an injective uninterpreted function per input length, disjoint across lengths; constant inputs are additionally pinned to their real digests",
    "ed25519.Verify is an uninterpreted predicate sigok(pk,msg,sig)",
]

PROPS = {}

PROPS["C15"] = {
    "runs": [
        {"pkg": "types", "harness": ["harness/c15/c15.go"], "run": "^VH_C15_",
         "params": {"quick": {}, "thorough": {}},
         "flags": {"quick": ["-timeout", "120000"], "thorough": ["-timeout", "600000"]},
         "tv_harnesses": ["VH_C15_Add", "VH_C15_Sub", "VH_C15_Cmp", "VH_C15_Mul64"]},
    ],
    "tv_runs": {"quick": 2, "thorough": 8},
    "bounds": {"quick": "full 128-bit operands, no loops", "thorough": "same"},
    "outside": ["text forms (String/Format/ParseCurrency/JSON): math/big decimal conversion and big.Rat are not encodable",
                "quoRem with a symbolic 128-bit divisor (non-linear trial-quotient argument; undecided by all three solvers even at width 8)"],
    "stubs": ["math/bits.Add64/Sub64/Mul64/Div64 replaced by their exact bit-vector definitions"],
    "assumptions": COMMON_ASSUME,
}

NOT_APPLICABLE = {
}

MANIFEST_TEXT = {
    "C15": {
        "text": "Bounded-model-checking level, here without any bound on operand values: for all 2^128 x 2^128 operand pairs the real SSA of Add/Sub/Cmp/Mul64 (and their panicking wrappers) is executed symbolically and z3 proves each result/flag/panic condition equal to an independent limb-wise reference. The functions are loop-free, so the result is complete for these operations.",
        "note": "Trusted: z3, our SSA->SMT encoder (cross-checked by native replay and translator-validation runs), exact BV definitions of math/bits intrinsics. Outside the claim: text forms; quoRem with symbolic 128-bit divisor.",
    },
}

TYPES_GEN = {"support": "harness/c11/support_types.go", "skip": ["elementLeaf", "V2Block", "V2BlockData", "V2TransactionsMultiproof"]}
BIG_T = "_(Transaction|V1Block|V2Transaction)$"
CONS_GEN = {"support": "harness/c11/support_consensus.go", "skip": ["elementLeaf"]}

PROPS["C11"] = {
    "runs": [
        {"pkg": "types", "gen": TYPES_GEN, "run": "^VH_C11_RT_", "params": {"quick": {"n": 1}, "thorough": {"n": 1}},
         "flags": {"quick": ["-maxpaths", "50000"], "thorough": ["-maxpaths", "50000"]},
         "tv_harnesses": ["VH_C11_RT_SiacoinElement", "VH_C11_RT_FileContract", "VH_C11_RT_V2FileContractResolution", "VH_C11_RT_Transaction", "VH_C11_RT_V2Transaction", "VH_C11_RT_SpendPolicy"]},
        {"pkg": "types", "gen": TYPES_GEN, "run": "^VH_C11_TR_", "skip": BIG_T, "params": {"quick": {"n": 1}, "thorough": {"n": 1}}},
        {"pkg": "consensus", "gen": CONS_GEN, "run": "^VH_C11_(RT|TR)_", "params": {"quick": {"n": 1}, "thorough": {"n": 2}},
         "tv_harnesses": ["VH_C11_RT_State", "VH_C11_RT_V1TransactionSupplement"]},
        {"pkg": "rhp/v4", "gen": {"skip": []}, "run": "^VH_C11_(RT|TR)_", "skip": "(FormContract|RefreshContract|RenewContract)", "params": {"quick": {"n": 1}, "thorough": {"n": 2}}},
        {"pkg": "gateway", "gen": {"support": "harness/c11/support_gateway.go", "skip": []}, "run": "^VH_C11_(RT|TR)_", "skip": "(RPCSendV2BlocksResp|RPCSendTransactionsResp|RPCSendCheckpointResp|RPCRelayV2BlockOutlineReq|RPCRelayV2TransactionSetReq|V2BlockOutline)$", "params": {"quick": {"n": 1}, "thorough": {"n": 2}}},
        {"pkg": "rhp/v2", "gen": {"skip": []}, "run": "^VH_C11_RT_", "skip": "(FormContractAdditions|FormContractRequest|LockResponse|RenewAndClearContractRequest)", "params": {"quick": {"n": 1}, "thorough": {"n": 1}}, "flags": {"quick": ["-maxpaths", "50000"], "thorough": ["-maxpaths", "50000"]}},
        {"pkg": "rhp/v3", "gen": {"skip": []}, "run": "^VH_C11_RT_", "skip": "(InstrReadRegistryNoVersion|InstrUpdateRegistryNoType|ExecuteProgramResponse|LatestRevisionResponse|RenewContractHostAdditions|RenewContractRequest)", "params": {"quick": {"n": 1}, "thorough": {"n": 1}}, "flags": {"quick": ["-maxpaths", "50000"], "thorough": ["-maxpaths", "50000"]}},
        {"pkg": "types", "gen": TYPES_GEN, "run": "^VH_C11_RT_", "params": {"thorough": {"n": 0}}, "thorough_only": True},
        {"pkg": "types", "gen": TYPES_GEN, "run": "^VH_C11_RT_", "skip": "_(V1Block|Transaction)$", "params": {"thorough": {"n": 2}}, "flags": {"thorough": ["-maxpaths", "200000"]}, "thorough_only": True},
        {"pkg": "types", "gen": TYPES_GEN, "run": "^VH_C11_TR_(Transaction|V2Transaction)$", "params": {"thorough": {"n": 1}}, "flags": {"thorough": ["-maxpaths", "200000"]}, "thorough_only": True},
    ],
    "tv_runs": {"quick": 2, "thorough": 6},
    "bounds": {"quick": "every slice field 1 element (byte strings 1 byte), pointers non-nil, 7 policy kinds / 3 resolution kinds forked; v1 currencies inside composite v1 objects restricted to one common byte-length in {0,1,8,9,16} (all 17 lengths on V1Currency/V1SiacoinOutput themselves); truncation at every prefix length for all types except Transaction/V1Block/V2Transaction",
               "thorough": "slice lengths 0, 1 and 2; truncation also for Transaction and V2Transaction"},
    "outside": ["values with slices longer than the bound", "multiproof block forms (V2Block, V2BlockData, V2TransactionsMultiproof): see C18", "gateway objects that carry blocks, v1/v2 transaction sets, checkpoints or outlines (multiproof / policy shapes; see C18 for the outline)", "rhp objects that embed v1 transactions/revisions or spend policies (skip lists in evidence.coverage.runs): their documented normalisations were not encoded", "types.elementLeaf (internal, decoder needs preset pointers)",
                "canonicity of arbitrary accepted byte strings is NOT claimed: V1Currency accepts leading zero bytes and V2Transaction accepts set field bits with empty lists (the property only speaks about an object's own encoding)"],
    "stubs": ["bytes.Buffer, io.LimitedReader, bytes.Reader, encoding/binary: real library code executed"],
    "assumptions": COMMON_ASSUME + ["documented normalisations applied before comparison: StateElement.shared=false, v1 revision Payout = sentinel, V1Block.V2 = nil, nil == empty slice, times built with time.Unix(s,0)"],
}

C10_VH = ["harness/c10/c10_validate.go", "harness/common/cons_world.go", "harness/common/cons_support.go"]
PROPS["C10"] = {
    "runs": [
        {"pkg": "types", "gen": TYPES_GEN, "run": "^VH_C10_DEC_", "skip": "_(SpendPolicy|SatisfiedPolicy|V2SiacoinInput|V2SiafundInput|V2Transaction|Transaction|V1Block)$",
         "params": {"quick": {"N": 40, "alloc_limit": 255, "lazy_make": 1}, "thorough": {"N": 64, "alloc_limit": 255, "lazy_make": 1}},
         "flags": {"quick": ["-maxlen", "256", "-maxpaths", "200000"], "thorough": ["-maxlen", "256", "-maxpaths", "400000"]}},
        {"pkg": "types", "gen": TYPES_GEN, "run": "^VH_C10_DEC_(SpendPolicy|SatisfiedPolicy|V2SiacoinInput|V2SiafundInput)$",
         "params": {"quick": {"N": 20, "alloc_limit": 255, "lazy_make": 1}, "thorough": {"N": 26, "alloc_limit": 255, "lazy_make": 1}},
         "flags": {"quick": ["-maxlen", "256", "-maxpaths", "200000"], "thorough": ["-maxlen", "256", "-maxpaths", "1000000"]}},
        {"pkg": "types", "gen": TYPES_GEN, "run": "^VH_C10_DEC_(Transaction|V1Block)$",
         "params": {"quick": {"N": 100, "alloc_limit": 255, "lazy_make": 1}, "thorough": {"N": 110, "alloc_limit": 255, "lazy_make": 1}},
         "flags": {"quick": ["-maxlen", "256", "-maxpaths", "200000"], "thorough": ["-maxlen", "256", "-maxpaths", "1000000"]}},
        {"pkg": "types", "gen": TYPES_GEN, "run": "^VH_C10_DEC_V2Transaction$",
         "params": {"quick": {"N": 24, "alloc_limit": 255, "lazy_make": 1}, "thorough": {"N": 40, "alloc_limit": 255, "lazy_make": 1}},
         "flags": {"quick": ["-maxlen", "256", "-maxpaths", "200000"], "thorough": ["-maxlen", "256", "-maxpaths", "1000000"]}},
        {"pkg": "consensus", "gen": CONS_GEN, "run": "^VH_C10_DEC_", "skip": "_(ElementAccumulator|State)$",
         "params": {"quick": {"N": 40, "alloc_limit": 255, "lazy_make": 1}, "thorough": {"N": 64, "alloc_limit": 255, "lazy_make": 1}},
         "flags": {"quick": ["-maxlen", "256", "-maxpaths", "200000"], "thorough": ["-maxlen", "256", "-maxpaths", "400000"]}},
        {"pkg": "types", "harness": ["harness/c10/c10_multiproof.go"], "run": "^VH_C10_MultiproofDecode$",
         "params": {"quick": {"maxtxns": 1, "maxleaves": 8, "maxhashes": 4}, "thorough": {"maxtxns": 1, "maxleaves": 8, "maxhashes": 4}},
         "flags": {"quick": ["-timeout", "3000", "-maxpaths", "200000"], "thorough": ["-timeout", "5000", "-maxpaths", "1000000"]},
         "must_reach": {"VH_C10_MultiproofDecode": ["accepted", "rejected"]}},
        {"pkg": "consensus", "harness": C10_VH, "run": "^VH_C10_CoveredFieldsInRange$", "params": {"quick": {}, "thorough": {}},
         "flags": {"quick": ["-timeout", "2000"], "thorough": ["-timeout", "2000"]}, "must_reach": {"VH_C10_CoveredFieldsInRange": ["in-range", "out-of-range"]}},
        {"pkg": "consensus", "harness": C10_VH, "run": "^VH_C10_V2BlockEphemeral$",
         "params": {"quick": {"weight_uf": 1, "v1cur_fixed": 1, "tax_uf": 1, "spidx_uf": 1, "cflen": 1, "int_mode": 1, "cur_lift": 1}, "thorough": {"ephfull": 1, "weight_uf": 1, "v1cur_fixed": 1, "tax_uf": 1, "spidx_uf": 1, "cflen": 1, "int_mode": 1, "cur_lift": 1}},
         "flags": {"quick": ["-timeout", "1000", "-maxpaths", "100000"], "thorough": ["-timeout", "1000", "-maxpaths", "400000"]},
         "must_reach": {"VH_C10_V2BlockEphemeral": ["first-applied", "second-rejected", "second-accepted", "second-applied"]}},
        {"pkg": "consensus", "harness": C10_VH, "run": "^VH_C10_ValidateV1$", "params": {"quick": {"mask": 643, "weight_uf": 1, "v1cur_fixed": 1, "tax_uf": 1, "spidx_uf": 1, "cflen": 1, "int_mode": 1, "cur_lift": 1}, "thorough": {"mask": 643, "weight_uf": 1, "v1cur_fixed": 1, "tax_uf": 1, "spidx_uf": 1, "cflen": 1, "int_mode": 1, "cur_lift": 1}},
         "flags": {"quick": ["-timeout", "1000", "-maxpaths", "100000"], "thorough": ["-timeout", "1000", "-maxpaths", "400000"]},
         "must_reach": {"VH_C10_ValidateV1": ["rejected", "accepted", "applied"]}},
        {"pkg": "consensus", "harness": C10_VH, "run": "^VH_C10_ValidateV1$", "params": {"quick": {"mask": 519, "weight_uf": 1, "v1cur_fixed": 1, "tax_uf": 1, "spidx_uf": 1, "cflen": 1, "int_mode": 1, "cur_lift": 1}, "thorough": {"mask": 519, "weight_uf": 1, "v1cur_fixed": 1, "tax_uf": 1, "spidx_uf": 1, "cflen": 1, "int_mode": 1, "cur_lift": 1}},
         "flags": {"quick": ["-timeout", "1000", "-maxpaths", "100000"], "thorough": ["-timeout", "1000", "-maxpaths", "400000"]},
         "must_reach": {"VH_C10_ValidateV1": ["rejected"]}},
        {"pkg": "consensus", "harness": C10_VH, "run": "^VH_C10_ValidateV1$", "params": {"quick": {"mask": 769, "weight_uf": 1, "v1cur_fixed": 1, "tax_uf": 1, "spidx_uf": 1, "cflen": 1, "int_mode": 1, "cur_lift": 1}, "thorough": {"mask": 769, "weight_uf": 1, "v1cur_fixed": 1, "tax_uf": 1, "spidx_uf": 1, "cflen": 1, "int_mode": 1, "cur_lift": 1}},
         "flags": {"quick": ["-timeout", "1000", "-maxpaths", "100000"], "thorough": ["-timeout", "1000", "-maxpaths", "400000"]},
         "must_reach": {"VH_C10_ValidateV1": ["rejected"]}},
        {"pkg": "consensus", "harness": C10_VH, "run": "^VH_C10_ValidateV1$", "params": {"quick": {"mask": 16, "weight_uf": 1, "v1cur_fixed": 1, "tax_uf": 1, "spidx_uf": 1, "cflen": 1, "int_mode": 1, "cur_lift": 1}, "thorough": {"mask": 16, "weight_uf": 1, "v1cur_fixed": 1, "tax_uf": 1, "spidx_uf": 1, "cflen": 1, "int_mode": 1, "cur_lift": 1}},
         "flags": {"quick": ["-timeout", "1000", "-maxpaths", "100000"], "thorough": ["-timeout", "1000", "-maxpaths", "400000"]},
         "must_reach": {"VH_C10_ValidateV1": ["rejected"]}},
        {"pkg": "consensus", "harness": C10_VH, "run": "^VH_C10_ValidateV1$", "params": {"quick": {"mask": 521, "weight_uf": 1, "v1cur_fixed": 1, "tax_uf": 1, "spidx_uf": 1, "cflen": 1, "int_mode": 1, "cur_lift": 1}, "thorough": {"mask": 521, "weight_uf": 1, "v1cur_fixed": 1, "tax_uf": 1, "spidx_uf": 1, "cflen": 1, "int_mode": 1, "cur_lift": 1}},
         "flags": {"quick": ["-timeout", "1000", "-maxpaths", "100000"], "thorough": ["-timeout", "1000", "-maxpaths", "400000"]},
         "must_reach": {"VH_C10_ValidateV1": ["rejected"]}, "thorough_only": True},
        {"pkg": "consensus", "harness": C10_VH, "run": "^VH_C10_ValidateV1$", "params": {"quick": {"mask": 608, "weight_uf": 1, "v1cur_fixed": 1, "tax_uf": 1, "spidx_uf": 1, "cflen": 1, "int_mode": 1, "cur_lift": 1}, "thorough": {"mask": 608, "weight_uf": 1, "v1cur_fixed": 1, "tax_uf": 1, "spidx_uf": 1, "cflen": 1, "int_mode": 1, "cur_lift": 1}},
         "flags": {"quick": ["-timeout", "1000", "-maxpaths", "100000"], "thorough": ["-timeout", "1000", "-maxpaths", "400000"]},
         "must_reach": {"VH_C10_ValidateV1": ["rejected"]}, "thorough_only": True},
        {"pkg": "consensus", "harness": C10_VH, "run": "^VH_C10_ValidateV2$", "params": {"quick": {"mask": 3, "weight_uf": 1, "v1cur_fixed": 1, "tax_uf": 1, "spidx_uf": 1, "cflen": 1, "int_mode": 1, "cur_lift": 1}, "thorough": {"mask": 3, "weight_uf": 1, "v1cur_fixed": 1, "tax_uf": 1, "spidx_uf": 1, "cflen": 1, "int_mode": 1, "cur_lift": 1}},
         "flags": {"quick": ["-timeout", "1000", "-maxpaths", "100000"], "thorough": ["-timeout", "1000", "-maxpaths", "400000"]},
         "must_reach": {"VH_C10_ValidateV2": ["rejected", "accepted", "applied"]}},
        {"pkg": "consensus", "harness": C10_VH, "run": "^VH_C10_ValidateV2$", "params": {"quick": {"mask": 12, "weight_uf": 1, "v1cur_fixed": 1, "tax_uf": 1, "spidx_uf": 1, "cflen": 1, "int_mode": 1, "cur_lift": 1}, "thorough": {"mask": 12, "weight_uf": 1, "v1cur_fixed": 1, "tax_uf": 1, "spidx_uf": 1, "cflen": 1, "int_mode": 1, "cur_lift": 1}},
         "flags": {"quick": ["-timeout", "1000", "-maxpaths", "100000"], "thorough": ["-timeout", "1000", "-maxpaths", "400000"]},
         "must_reach": {"VH_C10_ValidateV2": ["rejected"]}},
        {"pkg": "consensus", "harness": C10_VH, "run": "^VH_C10_ValidateV2$", "params": {"quick": {"mask": 16, "weight_uf": 1, "v1cur_fixed": 1, "tax_uf": 1, "spidx_uf": 1, "cflen": 1, "int_mode": 1, "cur_lift": 1}, "thorough": {"mask": 16, "weight_uf": 1, "v1cur_fixed": 1, "tax_uf": 1, "spidx_uf": 1, "cflen": 1, "int_mode": 1, "cur_lift": 1}},
         "flags": {"quick": ["-timeout", "1000", "-maxpaths", "100000"], "thorough": ["-timeout", "1000", "-maxpaths", "400000"]},
         "must_reach": {"VH_C10_ValidateV2": ["rejected"]}},
        {"pkg": "consensus", "harness": C10_VH, "run": "^VH_C10_ValidateV2$", "params": {"quick": {"mask": 32, "weight_uf": 1, "v1cur_fixed": 1, "tax_uf": 1, "spidx_uf": 1, "cflen": 1, "int_mode": 1, "cur_lift": 1}, "thorough": {"mask": 32, "weight_uf": 1, "v1cur_fixed": 1, "tax_uf": 1, "spidx_uf": 1, "cflen": 1, "int_mode": 1, "cur_lift": 1}},
         "flags": {"quick": ["-timeout", "1000", "-maxpaths", "100000"], "thorough": ["-timeout", "1000", "-maxpaths", "400000"]},
         "must_reach": {"VH_C10_ValidateV2": ["rejected"]}},
        {"pkg": "consensus", "harness": C10_VH, "run": "^VH_C10_ValidateV2$", "params": {"quick": {"mask": 128, "weight_uf": 1, "v1cur_fixed": 1, "tax_uf": 1, "spidx_uf": 1, "cflen": 1, "int_mode": 1, "cur_lift": 1}, "thorough": {"mask": 128, "weight_uf": 1, "v1cur_fixed": 1, "tax_uf": 1, "spidx_uf": 1, "cflen": 1, "int_mode": 1, "cur_lift": 1}},
         "flags": {"quick": ["-timeout", "1000", "-maxpaths", "100000"], "thorough": ["-timeout", "1000", "-maxpaths", "400000"]},
         "must_reach": {"VH_C10_ValidateV2": ["rejected"]}},
        {"pkg": "consensus", "harness": C10_VH, "run": "^VH_C10_ValidateV2$", "params": {"quick": {"mask": 769, "weight_uf": 1, "v1cur_fixed": 1, "tax_uf": 1, "spidx_uf": 1, "cflen": 1, "int_mode": 1, "cur_lift": 1}, "thorough": {"mask": 769, "weight_uf": 1, "v1cur_fixed": 1, "tax_uf": 1, "spidx_uf": 1, "cflen": 1, "int_mode": 1, "cur_lift": 1}},
         "flags": {"quick": ["-timeout", "1000", "-maxpaths", "100000"], "thorough": ["-timeout", "1000", "-maxpaths", "400000"]},
         "must_reach": {"VH_C10_ValidateV2": ["rejected"]}},
    ],
    "tv_runs": {"quick": 0, "thorough": 0},
    "bounds": {"quick": "validators: transaction shapes with the component groups listed in evidence.coverage.runs (1 element per populated component; v1 masks 643/519/769/16, v2 masks 3/12/16/32/128/769), fully symbolic contents, state, network parameters and supplement; decoders: arbitrary input of N bytes, N=40 (policy-bearing objects 20, v1 Transaction/V1Block 100, V2Transaction 24); every loop unwound to completion (path/loop budgets are unwinding assertions); allocation per site <= max(N,255) elements; multiproof block body: the real wire form of 1 v2 transaction (1 siacoin input, optional contract revision, arbitrary 64-bit leaf indices) + arbitrary leaf count < 8 + 0..3 arbitrary proof hashes decodes without panic; two v2 transactions of one block where the second spends an ephemeral siacoin parent with an arbitrary ID (incl. the ID of an attestation or output created by the first), both eras of the ephemeral-output fork: no panic in validation or application; coveredFieldsInRange <=> every index list is below the length of its own field (10 fields of pairwise different lengths)",
               "thorough": "N=64 / 26 / 110 / 40 (v1 Transaction at N=120 did not finish in 200 s, at N=140 not in 35 minutes); ephemeral siafund parents and contract-creating first transactions; two more v1 component masks (521, 608); masks 611, 65 and 67 were tried and did not finish within minutes"},
    "outside": ["inputs longer than N", "JSON/text Unmarshal entry points (hex text forms: see C20)", "multiproofs with more than 1 transaction or leaf counts >= 8, arbitrary bytes fed to the V2Block/multiproof decoders (the transaction part is a real encoding with symbolic field values)"],
    "stubs": ["fmt.Errorf/Sprintf: opaque values (formatting code not executed)"],
    "assumptions": COMMON_ASSUME,
}

MANIFEST_TEXT["C11"] = {
    "text": "Bounded model checking of the real codec code: for every type with an encoder/decoder pair (harnesses regenerated from the package's method sets on each run) a fully symbolic value of the shape bound is encoded with the real EncodeTo, decoded with the real DecodeFrom, and the solver (mostly the term simplifier) proves decode error == nil, deep equality of every field of the static type, full consumption, byte-identical re-encoding, and failure of every proper prefix. Field-completeness follows from the left inverse: a field dropped from the wire comes back as zero != its symbolic original.",
    "note": "Trusted: z3, encoder of the engine, flat-cell memory model for the unsafe slice/pointer casts (EncodeSliceCast etc.). Bounds: slice lengths <= 1 (quick) / <= 2 (thorough). Layout-exactness against an independent table is checked only for the objects listed in evidence.bounds.",
}
MANIFEST_TEXT["C10"] = {
    "text": "Bounded model checking: each decoder runs on an arbitrary N-byte buffer (one symbolic bit-vector); every path is explored; any feasible Go panic (index, nil, slice bounds, make size, explicit), any loop exceeding its unwinding bound, and any allocation whose symbolic size can exceed max(N,255) elements is a violation with a concrete input replayed against the real build.",
    "note": "Trusted: z3, engine. Bounds: N per decoder group as listed in evidence.bounds; inputs longer than N are outside the claim.",
}

C12_SUPPORT = ["harness/c12/c12_types.go", "harness/c11/support_types.go"]
PROPS["C12"] = {
    "runs": [
        {"pkg": "types", "harness": C12_SUPPORT, "run": "^VH_C12_", "params": {"quick": {"n": 1}, "thorough": {"n": 1, "pairs": 1}},
         "flags": {"quick": ["-maxpaths", "100000"], "thorough": ["-maxpaths", "400000"]},
         "must_reach": {"VH_C12_V2_ID_SameShape": ["end"], "VH_C12_V1_ID_SameShape": ["end"], "VH_C12_DerivedIDs": ["end"], "VH_C12_BlockID": ["end"], "VH_C12_V2_ID_ClaimAddress": ["end"]},
         "tv_harnesses": ["VH_C12_V2_ID_SameShape", "VH_C12_DerivedIDs", "VH_C12_V2_ID_ClaimAddress"]},
        {"pkg": "consensus", "harness": ["harness/c12/c12_cons.go", "harness/common/cons_support.go"], "run": "^VH_C12_",
         "params": {"quick": {"n": 1}, "thorough": {"n": 2}},
         "must_reach": {"VH_C12_V2SigHashes": ["end"], "VH_C12_V1WholeSigHash": ["cross-era", "same-era"], "VH_C12_V2Commitment": ["end"], "VH_C12_V1PartialSigHash": ["cross-era", "same-era"]},
         "tv_harnesses": ["VH_C12_V2SigHashes", "VH_C12_V1WholeSigHash"]},
        {"pkg": "types", "harness": C12_SUPPORT, "run": "^VH_C12_V2_ID_(SameShape|AdjacentShape)$", "params": {"thorough": {"n": 2}}, "thorough_only": True},
    ],
    "tv_runs": {"quick": 2, "thorough": 6},
    "bounds": {"quick": "v1: one or two adjacent components populated with 1 element each (same shape, all 10 components; all adjacent-shape pairs with the 9 effect-bearing components populated); v2: all 10 components with 1 element, 3 resolution kinds; v1 currencies: one byte-length class in {0,1,8,9,16} per transaction (independent for the two transactions compared); derived IDs: symbolic indices, independent symbolic bases; block: 1 payout + 1 transaction",
               "thorough": "v1: all component pairs; v2: also 2 elements per component; commitment with 2 transactions"},
    "outside": ["shapes with more elements per component", "v1 PartialSigHash writes no length prefixes by design: only same-shape, same-covered-fields injectivity is meaningful (used in C03)",
                "v1 signature hashes bind the replay prefix only through inputs (a v1 transaction without siacoin/siafund inputs has no prefix in its sighash); checked with >= 1 input"],
    "stubs": ["sync.Pool.Get returns a fresh hasher"],
    "assumptions": COMMON_ASSUME + IDEAL_CRYPTO,
}
MANIFEST_TEXT["C12"] = {
    "text": "Bounded model checking under the ideal-hash model: ID(t1)==ID(t2) <=> effect-bearing content equal is decided by the solver over two fully symbolic transactions of one shape (the pre-images are produced by the real EncodeTo/hashAll code, so a field missing from the pre-image gives a concrete pair of transactions, replayed natively with real BLAKE2b); adjacent shapes, different resolution kinds, all derived-ID kinds and indices, v1/v2 sighashes across eras and purposes, block ID and v2 commitment likewise.",
    "note": "Trusted: ideal (injective) hash per input length, z3/cvc5, engine. The effect-bearing projection is an independent statement in the harness (harness/c12). Bounds as in evidence.bounds.",
}

PROPS["C14"] = {
    "runs": [
        {"pkg": "types", "harness": ["harness/c14/c14.go"], "run": "^VH_C14_VerifyMatchesMeaning$",
         "params": {"quick": {"depth": 1, "breadth": 2, "maxsigs": 3, "maxpres": 2}, "thorough": {"depth": 2, "breadth": 2, "maxsigs": 4, "maxpres": 3}},
         "flags": {"quick": ["-maxpaths", "200000"], "thorough": ["-maxpaths", "3000000"]},
         "must_reach": {"VH_C14_VerifyMatchesMeaning": ["accepted", "rejected"]},
         "tv_harnesses": ["VH_C14_VerifyMatchesMeaning"]},
        {"pkg": "types", "harness": ["harness/c14/c14.go"], "run": "^VH_C14_(OpaqueKeepsAddress|AddressBindsPolicy|StandardAddress)$",
         "params": {"quick": {"depth": 1, "breadth": 2, "maxsigs": 3, "maxpres": 2}, "thorough": {"depth": 1, "breadth": 2, "maxsigs": 4, "maxpres": 3}},
         "flags": {"quick": ["-maxpaths", "200000"], "thorough": ["-maxpaths", "3000000"]},
         "must_reach": {"VH_C14_OpaqueKeepsAddress": ["end"], "VH_C14_AddressBindsPolicy": ["end"], "VH_C14_StandardAddress": ["end"]},
         "tv_harnesses": ["VH_C14_OpaqueKeepsAddress", "VH_C14_StandardAddress"]},
    ],
    "tv_runs": {"quick": 4, "thorough": 16},
    "bounds": {"quick": "all policy trees of depth <= 1 (threshold of <= 2 leaves; unlock conditions with <= 3 keys of 3 algorithm classes) over all 7 kinds, contents symbolic; 0..3 signatures, 0..2 preimages; height, median time, sighash symbolic",
               "thorough": "Verify vs the evaluator: depth <= 2, breadth 2, 0..4 signatures, 0..3 preimages; opaque substitution and address binding: depth <= 1 with 0..4 signatures, 0..3 preimages (depth 2 and breadth 3 of these two did not finish in 20 minutes)"},
    "outside": ["deeper/wider trees; the 1024-node and 255-child limits are exercised only through the evaluator's mirror of the rule (trees that large are outside the bound)", "string form (ParseSpendPolicy/String): see C20"],
    "stubs": ["ed25519.Verify: ideal signature (sig == SIG(pk,msg), SIG determines pk and msg)", "sha256: ideal injective hash"],
    "assumptions": COMMON_ASSUME + IDEAL_CRYPTO,
}
MANIFEST_TEXT["C14"] = {
    "text": "Bounded model checking: for every policy tree shape within the bound (forked) with symbolic contents, witnesses, height, time and sighash, the real SpendPolicy.Verify is executed symbolically and compared on every path with an independently written evaluator of the policy's meaning (cursor-explicit, exact consumption). Address invariance under opaque substitution, address injectivity up to opaque commitment, and StandardAddress/StandardUnlockHash equivalence (including the two hard-coded leaf hashes, pinned to real BLAKE2b) are decided as term identities or by the solver.",
    "note": "Trusted: ideal hash/signature models, z3, engine. Bounds: depth/breadth as in evidence.bounds.",
}

C04_H = ["harness/c04/c04.go", "harness/c05/c05.go"]
PROPS["C04"] = {
    "runs": [
        {"pkg": "consensus", "harness": C04_H, "run": "^VH_C04_", "params": {"quick": {"maxn": 5, "maxproof": 3, "v1": 1}, "thorough": {"maxn": 6, "maxproof": 3, "v1": 1}},
         "flags": {"quick": ["-maxpaths", "300000"], "thorough": ["-maxpaths", "3000000", "-timeout", "60000"]},
         "must_reach": {"VH_C04_MembershipSound": ["accepted-siacoin", "accepted-siafund", "accepted-v2contract", "accepted-chainindex", "accepted-v1contract"],
                        "VH_C04_MembershipComplete": ["end"], "VH_C04_TransactionElements": ["accepted"]},
         "tv_harnesses": ["VH_C04_MembershipComplete"]},
    ],
    "tv_runs": {"quick": 2, "thorough": 6},
    "bounds": {"quick": "forests of n = 1..5 genuine leaves (element kinds siacoin, siafund, v2 contract, chain index, v1 contract by position; all fields and spent flags symbolic), candidate of every kind with symbolic fields, symbolic leaf index, proof length 0..3 with symbolic hashes; v1 contracts with 2 valid + 2 missed outputs and currency byte-length class in {1,9,16}",
               "thorough": "n = 1..6, proof length 0..3 (n = 1..8 with proofs up to 4 did not finish within 40 minutes)"},
    "outside": ["larger forests / longer proofs", "'taken from a reverted branch' is decided as 'not among the leaves of the current forest' (C05/C06 show the forest after revert is the parent forest)",
                "v1 parents supplied in the block supplement are checked with the same containsLeaf code path through validateSupplement in the C10/C02 validator harnesses"],
    "stubs": [],
    "assumptions": COMMON_ASSUME + IDEAL_CRYPTO,
}
MANIFEST_TEXT["C04"] = {
    "text": "Bounded model checking under the ideal-hash model: the forest roots are built by an independent naive reference over the real leaf-hash code for n symbolic genuine elements; for a fully symbolic candidate (all fields, claimed index, proof hashes) the solver proves contains*(candidate) => some genuine leaf has exactly this kind, position, every hashed field and spent status. A field omitted from a leaf hash, or a missing kind distinguisher, yields a concrete forged element, replayed natively.",
    "note": "Trusted: injective ideal hash, z3/cvc5, engine. Bounds: n <= 5 (8), proof length <= 3 (4).",
}
PROPS["C05"] = {
    "runs": [
        {"pkg": "consensus", "harness": ["harness/c05/c05.go"], "run": "^VH_C05_", "params": {"quick": {"maxn": 11, "maxk": 4, "maxu": 3}, "thorough": {"maxn": 20, "maxk": 8, "maxu": 3}},
         "flags": {"quick": ["-maxloop", "100000000", "-maxsteps", "200000000000"], "thorough": ["-maxloop", "1000000000", "-maxsteps", "20000000000000"]},
         "must_reach": {"VH_C05_ApplyRevert": ["end"]}, "tv_harnesses": []},
        {"pkg": "consensus", "harness": ["harness/c05/c05.go"], "run": "^VH_C05_", "params": {"thorough": {"maxn": 9, "maxk": 3, "maxu": 9}},
         "flags": {"thorough": ["-maxloop", "1000000000", "-maxsteps", "20000000000000"]}, "thorough_only": True},
    ],
    "tv_runs": {"quick": 0, "thorough": 0},
    "bounds": {"quick": "every accumulator size n = 0..11 (all bit patterns), every subset of <= 3 old leaves updated (all positions), k = 0..4 leaves added; one apply, one revert, one re-apply; every old, updated and added leaf tracked by a client",
               "thorough": "n = 0..20 with <= 3 updated and k <= 8; all subsets for n <= 9"},
    "outside": ["n > 20; apply/revert interleavings deeper than apply-revert-apply (each step starts from a forest that the previous step proved equal to the naive one, so longer sequences follow by induction on the step)"],
    "stubs": [],
    "assumptions": COMMON_ASSUME + IDEAL_CRYPTO + ["leaf hashes are symbolic: equalities of roots and proofs are decided as identities of hash terms (term simplifier), the solver decides branch feasibility"],
}
MANIFEST_TEXT["C05"] = {
    "text": "Bounded symbolic execution: applyBlock / revertBlock / updateElementProof run on symbolic leaf hashes for every configuration in the bound; the resulting Trees, NumLeaves and every client's proof are compared (as hash-term identities, i.e. for all hash values at once) with an independently written naive forest and its sibling paths, after apply, after revert against the parent forest, and after re-apply.",
    "note": "Trusted: ideal hash, engine. Control flow here depends only on the (enumerated) sizes and positions, so obligations close in the term layer; bounds as in evidence.bounds.",
}

SEQ_H = ["harness/cons/v2seq.go", "harness/common/cons_world.go", "harness/common/cons_support.go"]
SEQ_P = {"weight_uf": 1, "v1cur_fixed": 1, "tax_uf": 1, "spidx_uf": 1, "int_mode": 1, "cur_lift": 1}
SEQ_REACH = {
    "VH_SEQ_V2ReviseRevise": ["first-accepted", "second-accepted", "second-rejected", "revised-at-proof-height", "new-proof-height-at-bound", "minimal-window", "revision-number-plus-one", "missed-host-value-kept"],
    "VH_SEQ_V2ResolveOnce": ["revised", "resolved", "second-rejected"],
    "VH_SEQ_V2SameTxnDoubleUse": ["end"],
    "VH_SEQ_V2ResolutionOutputs": ["end", "proof-at-bound", "expiry-at-bound"],
    "VH_SEQ_V2PolicyLocks": ["accepted", "accepted-at-bound", "accepted-at-maturity"],
    "VH_SEQ_V2InputAuth": ["accepted-input", "accepted-attestation", "accepted-contract"],
    "VH_SEQ_V2RenewalAuth": ["accepted"],
    "VH_SEQ_V2DoubleSpend": ["first-accepted", "end"],
    "VH_SEQ_V1DoubleSpend": ["first-accepted", "second-accepted"],
    "VH_SEQ_ForkHeightsAndV1Locks": ["v1-accepted", "v2-accepted", "v1-last-height", "v1-at-maturity", "v2-first-height"],
    "VH_SEQ_V2Conservation": ["end"],
    "VH_SEQ_V2SiafundClaimRunningPool": ["end"],
    "VH_SEQ_V1FormContract": ["end", "window-starts-now", "minimal-window"],
    "VH_SEQ_V1Revision": ["end", "timelock-at-bound", "revised-at-window-start", "revision-number-plus-one"],
    "VH_SEQ_V1SiafundClaim": ["end"],
    "VH_SEQ_V1Resolution": ["proof-end", "expiry-end"],
    "VH_SEQ_V1SameTxnDouble": ["end"],
    "VH_SEQ_V1MultisigDistinctKeys": ["accepted"],
    "VH_SEQ_V1ProofAndExpirySameBlock": ["end"],
    "VH_SEQ_MinerPayouts": ["accepted"],
    "VH_SEQ_BlockIssuance": ["subsidy", "no-subsidy"],
    "VH_SEQ_V1SigAuth": ["accepted-whole", "accepted-partial", "rejected"],
    "VH_SEQ_V1SigTimelock": ["accepted", "accepted-at-sig-bound", "accepted-at-uc-bound"],
}
# tags whose reachability is part of the property (rules flip exactly at their bounds): not reached => violation
SEQ_ACCEPT = {"revised-at-proof-height", "new-proof-height-at-bound", "minimal-window", "revision-number-plus-one", "missed-host-value-kept", "proof-at-bound", "expiry-at-bound",
              "accepted-at-bound", "accepted-at-maturity", "v1-last-height", "v1-at-maturity", "v2-first-height", "window-starts-now", "timelock-at-bound", "revised-at-window-start",
              "accepted-at-sig-bound", "accepted-at-uc-bound"}
SEQ_V1 = ["VH_SEQ_V1FormContract", "VH_SEQ_V1Revision", "VH_SEQ_V1SiafundClaim", "VH_SEQ_V1Resolution", "VH_SEQ_V1SameTxnDouble", "VH_SEQ_V1MultisigDistinctKeys",
          "VH_SEQ_V1ProofAndExpirySameBlock", "VH_SEQ_MinerPayouts", "VH_SEQ_V1SigTimelock", "VH_SEQ_BlockIssuance", "VH_SEQ_V1SigAuth"]
SEQ_H1 = ["harness/cons/v1seq.go", "harness/common/cons_world.go", "harness/common/cons_support.go"]
SEQ_CUTS = ["TransactionWeight/V2TransactionWeight: an arbitrary value (uninterpreted)", "FileContractTax / V2FileContractTax: uninterpreted tax(value) <= value (the same function in validation and application)",
            "StorageProofLeafIndex: arbitrary index below the leaf count", "V1Currency inside hash pre-images: fixed-width injective code (real variable-length code checked in C11)",
            "Currency Add/Sub/Cmp lifted to their 128-bit meaning (limb code checked in C15); sum/overflow queries decided in linear integer arithmetic",
            "all 11 previous timestamps equal (median = arbitrary instant); accumulator of 4 leaves with 2-hash proofs; IDs of elements from earlier blocks are ideal-hash outputs distinct from every ID derived in the current block"]
SEQ_ASSUME = COMMON_ASSUME + IDEAL_CRYPTO + ["state invariant assumed for elements a valid history can contain: currency values and the siafund pool < 2^120, siafund value <= 10000 and ClaimStart <= pool, v2 contracts satisfy MissedHostValue <= HostOutput, TotalCollateral <= HostOutput, Filesize <= Capacity (accumulator membership of exactly such elements is C04)"]


def seq_check(names, extra=None, flagsq=None):
    runs = []
    for nm in names:
        p = dict(SEQ_P)
        if nm == "VH_SEQ_V1DoubleSpend" or nm in SEQ_V1:
            p["nkeys"] = 0
        runs.append({"pkg": "consensus", "harness": SEQ_H1 if nm in SEQ_V1 else SEQ_H, "run": "^%s$" % nm, "params": {"quick": p, "thorough": p},
                     "flags": {"quick": ["-timeout", "1000", "-maxpaths", "200000"], "thorough": ["-timeout", "1000", "-maxpaths", "400000"]},
                     "must_reach": {nm: [t for t in SEQ_REACH[nm] if t not in SEQ_ACCEPT]}, "must_accept": {nm: [t for t in SEQ_REACH[nm] if t in SEQ_ACCEPT]}})
    return runs


PROPS["C02"] = {
    "runs": seq_check(["VH_SEQ_V2DoubleSpend", "VH_SEQ_V1DoubleSpend", "VH_SEQ_V2SameTxnDoubleUse", "VH_SEQ_V2ResolveOnce", "VH_SEQ_V1SameTxnDouble", "VH_SEQ_V1ProofAndExpirySameBlock"]),
    "tv_runs": {"quick": 0, "thorough": 0},
    "bounds": {"quick": "one step from an arbitrary state: two or three transactions of one block touching one element (v2: spend/spend, revise/resolve/any second use incl. all 3x3 resolution kinds; one transaction using a contract twice; v1: form-contract then spend with a symbolic parent ID; one v1 transaction naming one parent twice under zero-signature unlock conditions; a v1 contract proven in a block and listed as expiring in the same block is resolved once), fully symbolic contents", "thorough": "same"},
    "outside": ["second use in a later block is the accumulator's business: C04 (spent leaves are rejected as unspent) and C05 (the leaf is updated to spent)", "v1/v2 mixed pairs other than those listed; more than three transactions"],
    "stubs": SEQ_CUTS, "assumptions": SEQ_ASSUME,
}
PROPS["C03"] = {
    "runs": seq_check(["VH_SEQ_V2InputAuth", "VH_SEQ_V2RenewalAuth", "VH_SEQ_V2ReviseRevise", "VH_SEQ_V1MultisigDistinctKeys", "VH_SEQ_V1SigAuth"]),
    "tv_runs": {"quick": 0, "thorough": 0},
    "bounds": {"quick": "accepted => (policy address == parent address, signature valid for THIS transaction's signature hash under the revealed key; contract / revision / renewal signed by the keys of the contract as it currently stands incl. after an earlier in-block revision; attestation signed by its key; Foundation address change only with an input of the management address); public-key policies; v1: a 2-of-2 unlock condition with two whole-transaction signatures is accepted only if they use distinct key indices; an accepted v1 1-of-1 input names its parent and key, its unlock conditions hash to the parent's address and its signature verifies under the listed key over the whole-transaction hash or over the partial hash of exactly its covered fields; content binding of the signature hashes themselves is C12", "thorough": "same"},
    "outside": ["v1 signatures covering other field lists than one input + one output, multi-input v1 transactions at validator level (what the hashes bind: C12)", "threshold / hash / unlock-condition policies at validator level (policy semantics: C14)"],
    "stubs": SEQ_CUTS + ["ideal signatures: sig valid <=> sig == SIG(pk, msg)"], "assumptions": SEQ_ASSUME,
}
PROPS["C07"] = {
    "runs": seq_check(["VH_SEQ_V2ReviseRevise", "VH_SEQ_V2ResolutionOutputs", "VH_SEQ_V2ResolveOnce", "VH_SEQ_V1FormContract", "VH_SEQ_V1Revision", "VH_SEQ_V1Resolution"]) + [
        {"pkg": "consensus", "harness": ["harness/cons/storageproof.go", "harness/common/cons_world.go", "harness/common/cons_support.go"], "run": "^VH_C07_V2StorageProof$", "params": {"quick": {"maxleaves": 5}, "thorough": {"maxleaves": 9}},
         "flags": {"quick": ["-timeout", "5000", "-maxpaths", "200000"], "thorough": ["-timeout", "20000", "-maxpaths", "2000000"]},
         "must_reach": {"VH_C07_V2StorageProof": ["accepted", "end"]}},
        {"pkg": "consensus", "harness": ["harness/cons/storageproof.go", "harness/common/cons_world.go", "harness/common/cons_support.go"], "run": "^VH_C07_V1StorageProof$",
         "params": {"quick": {"maxleaves": 5, "spidx_uf": 1}, "thorough": {"maxleaves": 9, "spidx_uf": 1, "lastall": 1}},
         "flags": {"quick": ["-timeout", "5000", "-maxpaths", "200000"], "thorough": ["-timeout", "20000", "-maxpaths", "4000000"]},
         "must_reach": {"VH_C07_V1StorageProof": ["accepted", "end"]}}],
    "tv_runs": {"quick": 0, "thorough": 0},
    "bounds": {"quick": "v2 contracts: revision rules against an independent specification, relative to the parent and relative to an earlier in-block revision; resolution creates exactly the outputs of its kind (renewal: final outputs, value split exactly; storage proof: valid outputs; expiration: renter + missed host value) with maturity = MaturityHeight(); at most one resolution per block; v2 storage proof root: honest sibling path of every leaf of a 1..5-leaf file accepted, and for a symbolic proof (correct length and +-1) and symbolic presented leaf acceptance implies the presented leaf is the file's leaf at that index; the same two obligations for v1 proofs in each of the three leaf eras (the bytes that count in the era must be the file's); v1 contracts (2 valid + 2 missed outputs, zero-signature unlock conditions): formation (window, payout == valid sum + tax, valid sum == missed sum), revision (window not open, revision number, unlock hash, timelock, payout sums unchanged, recorded revision == accepted revision), storage proof / expiry create exactly the valid / missed outputs with the right maturity and mark the contract resolved", "thorough": "files up to 9 leaves"},
    "outside": ["v1 contracts with other output counts", "v1 storage proofs: files of 1..5 (thorough 9) leaves, last-leaf lengths 1, 31, 63, 64 (thorough: all 64), all three leaf eras, through the real validateFileContracts; empty files (no leaf to prove) are not covered", "v2 storage proofs only up to 5 (thorough 9) leaves with every partial last-leaf length; the rhp/v2 prover (BuildProof, ConvertProofOrdering) is not run: 'honest proof' is the sibling path of an independently written plain Merkle tree; the chain-derived challenge index is an uninterpreted function of (filesize, window ID, contract ID) with value below the leaf count"],
    "stubs": SEQ_CUTS, "assumptions": SEQ_ASSUME,
}
PROPS["C08"] = {
    "runs": seq_check(["VH_SEQ_V2PolicyLocks", "VH_SEQ_ForkHeightsAndV1Locks", "VH_SEQ_V2ResolutionOutputs", "VH_SEQ_V2ReviseRevise", "VH_SEQ_V1FormContract", "VH_SEQ_V1Revision", "VH_SEQ_V1SiafundClaim", "VH_SEQ_V1SigTimelock"]),
    "tv_runs": {"quick": 0, "thorough": 0},
    "bounds": {"quick": "symbolic heights, fork heights and maturity delay: accepted => bound respected with the exact comparison and operand (v2 policy locks use the tip height, maturity/timelocks the child height; storage proof >= proof height; expiration > expiration height; revision <= proof height; v1 < require height; v2 >= allow height), plus reachability of acceptance exactly at the bound for policy locks", "thorough": "same"},
    "outside": ["time locks (after(t)) at validator level (policy semantics incl. after(): C14)", "v1 per-signature and unlock-condition timelocks are covered for one whole-transaction signature (accepted => timelock <= child height, acceptance exactly at the bound reachable), v1 contract windows for formation and revision"],
    "stubs": SEQ_CUTS, "assumptions": SEQ_ASSUME,
}
PROPS["C01"] = {
    "runs": seq_check(["VH_SEQ_V2Conservation", "VH_SEQ_V2ResolutionOutputs", "VH_SEQ_V2ReviseRevise", "VH_SEQ_V2SiafundClaimRunningPool", "VH_SEQ_V1FormContract", "VH_SEQ_V1SiafundClaim", "VH_SEQ_V1Resolution", "VH_SEQ_MinerPayouts", "VH_SEQ_BlockIssuance"]),
    "tv_runs": {"quick": 0, "thorough": 0},
    "bounds": {"quick": "one v2 transaction from an arbitrary state: (1 input, 2 outputs, optional new contract, fee): value of created elements + locked contract value + pool increase + fee == value spent, computed on the diffs the real ApplyV2Transaction produced; renewal splits the old contract exactly; revisions keep the contract total and keep the missed host value <= host value (so an expiry never pays more than is locked); v2 siafund claim after an in-block contract formation pays (running pool - claim start)/10000 x value and new siafund outputs start at the running pool; v1: contract formation conserves (inputs == outputs + payout + fee, pool += tax), siafund claim pays exactly the share, resolution pays exactly the valid / missed outputs; miner payouts accepted => payout == block reward + v1 fee + v2 fee (1 payout, 1 fee each); a block creates exactly its miner payouts and, iff the Foundation schedule says so (10-minute block interval), the subsidy of exactly 30000 SC x blocks per month (per year at the fork height), all with the maturity delay", "thorough": "same"},
    "outside": ["chains (only the one-step equations above are decided; supply over a history follows by induction on these steps); sums over more elements than the harness shapes; block intervals other than 10 minutes in the subsidy schedule"],
    "stubs": SEQ_CUTS, "assumptions": SEQ_ASSUME,
}
for pid, txt in [("C01", "conservation equations on the diffs produced by the real validation+application code (v1 and v2 transactions, siafund claims, miner payouts, block issuance)"), ("C02", "no second use of an element inside one block"),
                 ("C03", "accepted => authorised by the right keys over this very content"), ("C07", "contract revision/resolution rules (v1 and v2) against an independent specification; v1 and v2 storage-proof verification complete and sound against a plain Merkle tree over a symbolic file"),
                 ("C08", "accepted => height bound respected (exact operand and comparison), and acceptance exactly at each bound is reachable (an exhaustive exploration that cannot reach it is a violation)")]:
    MANIFEST_TEXT[pid] = {
        "text": "Bounded model checking, inductive step: from an arbitrary symbolic state (network parameters, heights, pool, accumulator roots) satisfying the stated representation invariant, the real ValidateTransaction / ValidateV2Transaction and MidState.Apply* are executed symbolically on fully symbolic transactions of small shapes (one to three transactions of one block) and the solver decides: " + txt + ". Counterexamples are concrete transactions/states; those depending on hash or signature values are reported as symbolic-only.",
        "note": "Trusted: ideal hash/signature, z3 (bit-vector and linear-integer renderings), engine, the listed summaries (weight, tax, storage-proof index, 128-bit currency lifting). Shapes as in evidence.bounds; chains are covered only through the invariant.",
    }
PROPS["C13"] = {
    "runs": [
        {"pkg": "consensus", "harness": ["harness/c13/c13.go", "harness/common/cons_world.go", "harness/common/cons_support.go"], "run": "^VH_C13_(WorkCmp|WorkAddSub|WorkSubOrder|ValidateHeader)$",
         "params": {"quick": {"work_lift": 0, "int_mode": 1, "target_uf": 1, "time_lift": 1, "ntimestamps": 2}, "thorough": {"work_lift": 0, "int_mode": 1, "target_uf": 1, "time_lift": 1, "ntimestamps": 4}},
         "flags": {"quick": ["-timeout", "5000"], "thorough": ["-timeout", "20000"]},
         "must_reach": {"VH_C13_WorkCmp": ["end"], "VH_C13_WorkAddSub": ["end", "added", "subtracted"], "VH_C13_WorkSubOrder": ["end"], "VH_C13_ValidateHeader": ["accepted"]},
         "tv_harnesses": ["VH_C13_WorkCmp", "VH_C13_WorkAddSub"]},
        {"pkg": "consensus", "harness": ["harness/c13/c13.go", "harness/common/cons_world.go", "harness/common/cons_support.go"], "run": "^VH_C13_HeavierAsymmetric$",
         "params": {"quick": {"work_lift": 1, "int_mode": 1, "target_uf": 1, "time_lift": 1}, "thorough": {"work_lift": 1, "int_mode": 1, "target_uf": 1, "time_lift": 1}},
         "flags": {"quick": ["-timeout", "5000"], "thorough": ["-timeout", "20000"]},
         "must_reach": {"VH_C13_HeavierAsymmetric": ["end"]}},
        {"pkg": "consensus", "harness": ["harness/c13/c13.go", "harness/common/cons_world.go", "harness/common/cons_support.go"], "run": "^VH_C13_HeavierAsymmetric$",
         "params": {"quick": {"work_lift": 0, "int_mode": 1, "target_uf": 1, "time_lift": 1}, "thorough": {"work_lift": 0, "int_mode": 1, "target_uf": 1, "time_lift": 1}},
         "flags": {"quick": ["-timeout", "5000"], "thorough": ["-timeout", "20000"]},
         "must_reach": {"VH_C13_HeavierAsymmetric": ["end"]}, "thorough_only": True},
        {"pkg": "consensus", "harness": ["harness/c13/c13.go", "harness/common/cons_world.go", "harness/common/cons_support.go"], "run": "^VH_C13_RetargetNoDivZero$",
         "params": {"quick": {"work_lift": 1, "int_mode": 1, "time_lift": 1}, "thorough": {"work_lift": 1, "int_mode": 1, "time_lift": 1}}, "flags": {"quick": ["-timeout", "5000"], "thorough": ["-timeout", "20000"]},
         "must_reach": {"VH_C13_RetargetNoDivZero": ["end"]}},
    ],
    "tv_runs": {"quick": 2, "thorough": 6},
    "bounds": {"quick": "Work.add/sub/Cmp/min/max: all 2^256 x 2^256 operands (real limb code vs independent carry-chain reference; borrow-out == integer order); ValidateHeader accepted <=> (parent ID, timestamp >= median, nonce factor, ID <= target) with 2 distinct previous timestamps and the median checked against its definition; 'sufficiently heavier' asymmetric with Work operations lifted to their 256-bit meaning (justified by the first item; thorough also on the limb code); FinalCut and v2 retargeting from a concrete proof-of-work state (difficulty 2^40, Oak work 2^50, height 600000, five timestamp drifts) for EVERY Oak time: no division by zero, no underflow, result nonzero and within the 0.4% clamp", "thorough": "4 distinct timestamps; 'sufficiently heavier' on the real limb code incl. div64"},
    "outside": ["retargeting from a SYMBOLIC proof-of-work state (adjustDifficultyV2 / FinalCut clamp, totality, monotone total work) and header-vs-block equivalence: harnesses exist (VH_C13_FinalCutClamp, V2Clamp, RetargetTotal, HeaderVsBlock) but z3 4.8.12 does not return within its time limit on the 256-bit multiply/divide chains, in bit-vector or integer rendering; not claimed",
                "pre-v2 eras (big.Int target arithmetic, float64 clamp)", "invTarget is an uninterpreted function in ValidateHeader (the FinalCut target is 'the' inverse of the difficulty, not checked to be the floored inverse)"],
    "stubs": ["invTarget: uninterpreted", "time.Time.Sub: (t-u)*1e9 under |t-u| < 2^33 s", "HeavierAsymmetric (quick) and RetargetNoDivZero: Work add/sub/Cmp/mul64/div64 lifted to 256-bit operations (constant x symbolic products exact, symbolic quotients uninterpreted with q <= w)"],
    "assumptions": COMMON_ASSUME + IDEAL_CRYPTO,
}
MANIFEST_TEXT["C13"] = {
    "text": "Bounded model checking of the parts of proof-of-work handling that the solvers decide: the 256-bit Work arithmetic used by retargeting (full width, against an independent reference), header validation as an equivalence with the four header rules (median of the previous timestamps checked against its definition), and asymmetry of the reorg threshold. The retargeting clamp/totality obligations are NOT claimed (solver does not terminate); see evidence.outside_bounds.",
    "note": "Partial claim. Trusted: z3, engine, ideal hash for the block ID.",
}

PROPS["C16"] = {
    "runs": [
        {"pkg": "rhp/v4", "harness": ["harness/c16/c16.go"], "run": "^VH_C16_", "params": {"quick": {"maxn": 8, "maxappend": 3}, "thorough": {"maxn": 16, "maxappend": 5}},
         "flags": {"quick": ["-maxloop", "1000000", "-timeout", "5000"], "thorough": ["-maxloop", "100000000", "-timeout", "20000", "-maxpaths", "2000000"]},
         "must_reach": {"VH_C16_RootsAndCompleteness": ["end"], "VH_C16_RangeProofSound": ["end"], "VH_C16_AppendFreeSound": ["append-accepted", "free-accepted"]},
         "tv_harnesses": ["VH_C16_RootsAndCompleteness"]},
    ],
    "tv_runs": {"quick": 2, "thorough": 4},
    "bounds": {"quick": "n = 1..8 sector roots (symbolic), every (start,end) range, append batches of 1..3, every freed single/pair; soundness with symbolic proof hashes and symbolic claimed roots at the correct length and at length +-1",
               "thorough": "n = 1..16, append 1..5"},
    "outside": ["whole-sector functions (SectorRoot, ReaderRoot, ReadSector, BuildProof, BuildSectorProof, CachedSectorSubtrees, RangeProofVerifier.ReadFrom): 65 536-leaf hashing loops and goroutines are not encodable", "the AVX2 assembly and equality of CPU paths (assembly is not in SSA)",
                "observation (not claimed as a violation of the property as stated): VerifyDiffProof does not check the accumulated leaf count, so a proof that is shorter AND whose covered 'leaf' values are replaced by internal node hashes AND whose new root is recomputed accordingly is accepted; single-point corruptions are rejected"],
    "stubs": ["blake2b.SumPair / hashBlocks: ideal hash of the 65-byte block (generic code path)", "sector roots are ideal-hash outputs of unknown sector data (never equal to a node hash)"],
    "assumptions": COMMON_ASSUME + IDEAL_CRYPTO + ["acyclic ideal hash (a digest never equals a 32-byte piece of its own pre-image)"],
}
MANIFEST_TEXT["C16"] = {
    "text": "Bounded model checking under the ideal-hash model: MetaRoot and blake2b.Accumulator against a plainly written RFC-6962 tree; every builder output accepted by its verifier with the right old/new roots (term identities for all hash values at once); soundness of range, append and free proofs decided by the solver over symbolic proof hashes and claimed data, including wrong proof lengths.",
    "note": "Partial claim: sector-level hashing, streaming readers and SIMD paths are outside (not encodable). Bounds n <= 8 (16).",
}

PROPS["C17"] = {
    "runs": [
        {"pkg": "rhp/v4", "harness": ["harness/c17/c17.go"], "run": "^VH_C17_", "params": {"quick": {"mul_uf": 1, "tax_uf": 1, "int_mode": 1, "cur_lift": 1}, "thorough": {"mul_uf": 1, "tax_uf": 1, "int_mode": 1, "cur_lift": 1}},
         "flags": {"quick": ["-timeout", "2000"], "thorough": ["-timeout", "20000"]},
         "must_reach": {"VH_C17_PayWithContract": ["paid", "insufficient"], "VH_C17_Renew": ["end"], "VH_C17_Form": ["end"], "VH_C17_Refresh": ["end"]}, "tv_harnesses": ["VH_C17_PayWithContract", "VH_C17_Form", "VH_C17_Refresh"]},
        {"pkg": "rhp/v2", "harness": ["harness/c17v1/c17_rhp2.go"], "run": "^VH_C17_V1(TaxInversion|Formation)$",
         "params": {"quick": {"int_mode": 1, "cur_lift": 1, "cur_lift_mul": 1, "mul_uf": 1, "big_w": 320, "int_alt": 1}, "thorough": {"int_mode": 1, "cur_lift": 1, "cur_lift_mul": 1, "mul_uf": 1, "big_w": 320, "int_alt": 1}},
         "flags": {"quick": ["-timeout", "20000"], "thorough": ["-timeout", "20000"]},
         "must_reach": {"VH_C17_V1TaxInversion": ["end"], "VH_C17_V1Formation": ["end"]}, "tv_harnesses": ["VH_C17_V1TaxInversion", "VH_C17_V1Formation"]},
        {"pkg": "rhp/v2", "harness": ["harness/c17v1/c17_rhp2.go"], "run": "^VH_C17_V1Renewal$",
         "params": {"quick": {"int_mode": 1, "cur_lift": 1, "cur_lift_mul": 1, "mul_uf": 1, "big_w": 320, "int_alt": 1}, "thorough": {"int_mode": 1, "cur_lift": 1, "cur_lift_mul": 1, "mul_uf": 1, "big_w": 320, "int_alt": 1}},
         "flags": {"quick": ["-timeout", "20000"], "thorough": ["-timeout", "20000"]},
         "must_reach": {"VH_C17_V1Renewal": ["end"]}, "thorough_only": True},
    ],
    "tv_runs": {"quick": 2, "thorough": 6},
    "bounds": {"quick": "one constructor step from an arbitrary consensus-valid v2 contract (values < 2^104): PayWithContract (all Revise* constructors go through it) with arbitrary usage; RenewContract + RenewalCost with arbitrary prices and parameters whose price*size*duration products do not overflow; NewContract + ContractCost (terms carried over, value relations, costs fund contract + tax + fee exactly, host pays exactly its collateral); RefreshContractPartialRollover / FullRollover + RefreshCost (old value split exactly, rollover <= new contract cost, value relations, file/window/keys unchanged, collateral at risk unchanged, costs + rollovers fund the refreshed contract + tax + fee exactly, no panic); v1 era (rhp/v2): for EVERY payout target below 2^100, taxAdjustedPayout(target) == target + FileContractTax(that payout) (real Currency.Mul64/Div64 lifted to wide operations, real big.Int tax code, decided in linear integer arithmetic by cvc5 / z3 5.x); PrepareContractFormation yields equal valid/missed sums, a non-empty window, payout == taxAdjustedPayout(valid sum) with the sum inside the lemma's range, the requested terms, and ContractFormationCost == renter payout + fee + tax", "thorough": "same"},
    "outside": ["rhp/v3 renewal constructors (same taxAdjustedPayout code; not run), v1 renewal at quick tier (thorough only: about 10 minutes), pre-tax-hardfork tax rule (big.Rat)", "refresh starts from a contract with missed host value <= total collateral (the state RHP4's own constructors keep a contract in; RiskedCollateral() panics otherwise)", "products price*size*duration are uninterpreted (the identities checked do not depend on their value); paths where they overflow 2^128 panic in Currency.Mul64 and are outside the claim",
                "request Validate methods are not executed; the height relations they guarantee are assumed"],
    "stubs": ["v1 era: Currency.Mul64WithOverflow / quoRem64 replaced by single 192/128-bit operations (Mul64 limb code vs this meaning: C15; quoRem64 is assumed to be the schoolbook two-step division by a 64-bit divisor); math/big.Int modelled at 320 bits", "math/bits.Mul64 of two symbolic operands: uninterpreted product", "V2FileContractTax: uninterpreted tax(value) <= value", "Currency Add/Sub/Cmp lifted to 128 bits; integer rendering"],
    "assumptions": COMMON_ASSUME,
}
MANIFEST_TEXT["C17"] = {
    "text": "Bounded model checking, one inductive step over call sequences: from an arbitrary consensus-valid contract the real PayWithContract / RenewContract / RenewalCost are executed symbolically and the solver (linear integer rendering of the 128-bit currency arithmetic) proves the conservation identities, the exact charging of usage and risked collateral, clean failure iff funds are insufficient, rollover bounds, and that the results satisfy the consensus value relations.",
    "note": "Partial claim (v1-era constructors not covered). Trusted: z3, engine, uninterpreted products/tax.",
}

RHP4_SKIP = "(FormContract|RefreshContract|RenewContract)"
PROPS["C19"] = {
    "runs": [
        {"pkg": "rhp/v4", "harness": ["harness/c19/c19.go"], "run": "^VH_C19_", "params": {"quick": {"desclen": 8}, "thorough": {"desclen": 16}},
         "flags": {"quick": ["-maxlen", "600"], "thorough": ["-maxlen", "600"]},
         "must_reach": {"VH_C19_BatchLimits": ["end"], "VH_C19_ErrorResponse": ["end"], "VH_C19_ReadBounded": ["end"]}},
        {"pkg": "rhp/v4", "gen": {"skip": []}, "run": "^VH_C11_RT_", "skip": RHP4_SKIP, "params": {"quick": {"n": 1}, "thorough": {"n": 2}}},
    ],
    "tv_runs": {"quick": 0, "thorough": 0},
    "bounds": {"quick": "rhp/v4 framing only: account-batch objects (fund / replenish requests and responses): size measured with the real encoder at counts 0..3 on symbolic contents, affine, and size at MaxAccountBatchSize <= maxLen(); error responses with symbolic code and 8-byte description are delivered as that error and never fill the object; ReadRequest on an arbitrary over-long stream reads <= maxLen bytes (RPCVerifySectorRequest); every rhp/v4 object without a spend policy round-trips (1 element per list)",
               "thorough": "16-byte descriptions, 2 elements per list"},
    "outside": ["gateway handshake over net.Conn, mux streams, RHP2 ChaCha20-Poly1305 framing and tamper detection, RHP3 streams, message sequences on one connection: I/O, concurrency and AEAD code cannot be encoded", "sector-batch objects (MaxSectorBatchSize = 2^18 elements) use a 'reasonable size' bound without a protocol-defined maximum to check against", "gateway and rhp/v2, rhp/v3 length limits"],
    "stubs": [], "assumptions": COMMON_ASSUME,
}
MANIFEST_TEXT["C19"] = {
    "text": "Bounded model checking of the rhp/v4 framing code only: real encodeTo/decodeFrom/maxLen/ReadRequest/ReadResponse/WriteResponse executed symbolically; length arithmetic at the protocol's batch limits, error-response delivery for all codes/descriptions within the bound, and the read bound on an arbitrary over-long stream.",
    "note": "Partial claim: transports (handshake, mux, AEAD) are outside reach. Trusted: engine; bytes.Buffer/bytes.Reader/io.LimitedReader run as real library code.",
}

PROPS["C20"] = {
    "runs": [
        {"pkg": "types", "harness": ["harness/c20/c20.go"], "run": "^VH_C20_", "params": {"quick": {}, "thorough": {}},
         "flags": {"quick": ["-timeout", "5000", "-maxpaths", "100000"], "thorough": ["-timeout", "20000", "-maxpaths", "100000"]},
         "must_reach": {"VH_C20_Hash256Text": ["roundtrip"], "VH_C20_Hash256Parse": ["accepted", "rejected", "wrong-length"], "VH_C20_IDsText": ["roundtrip"],
                        "VH_C20_SignatureText": ["roundtrip"], "VH_C20_AddressText": ["roundtrip"], "VH_C20_AddressParse": ["accepted", "rejected", "wrong-length"],
                        "VH_C20_PublicKeyParse": ["accepted", "rejected"], "VH_C20_ChainIndexParse": ["accepted", "rejected", "wrong-length"]},
         "tv_harnesses": ["VH_C20_Hash256Text", "VH_C20_IDsText", "VH_C20_AddressText", "VH_C20_SignatureText", "VH_C20_Hash256Parse", "VH_C20_AddressParse"]},
        {"pkg": "rhp/v4", "harness": ["harness/c20/c20_rhp4.go"], "run": "^VH_C20_", "params": {"quick": {}, "thorough": {}},
         "flags": {"quick": ["-timeout", "5000", "-maxpaths", "100000"], "thorough": ["-timeout", "20000", "-maxpaths", "100000"]},
         "must_reach": {"VH_C20_AccountText": ["roundtrip"], "VH_C20_AccountParse": ["accepted", "rejected", "wrong-length"]},
         "tv_harnesses": ["VH_C20_AccountText", "VH_C20_AccountParse"]},
    ],
    "tv_runs": {"quick": 2, "thorough": 8},
    "bounds": {"quick": "hex text forms only, all byte values: Hash256, BlockID, TransactionID, AttestationID, SiacoinOutputID, SiafundOutputID, FileContractID, PublicKey, Signature, Address, rhp/v4 Account: UnmarshalText(MarshalText(x)) == x and String == MarshalText for every value; for arbitrary text of every length 0..66 (Hash256), 0..79 (Address), 0..69 (Account with/without prefix, ChainIndex ID part), prefix 0..9 + 62..66 characters (PublicKey): no panic, the wrong length is rejected, accepted text is over the hex alphabet and re-prints as its lower-case form; an accepted address text spells the 6-byte hash prefix of exactly the 32 bytes it spells (checksum verified over the whole address); an accepted public key has exactly the prefix ed25519:",
               "thorough": "same (the bound already contains every length up to one past the accepted one)"},
    "outside": ["everything that goes through encoding/json, fmt.Sscanf/Sprintf, strconv or math/big: JSON forms of all types, Currency text, SpendPolicy string form, Specifier quoting, UnlockKey, ChainIndex height digits (fixed to one digit here), ProtocolVersion, HostSettings, apply/revert update JSON: reflection and decimal conversion cannot be lowered within reach",
                "'an address string with any character altered is rejected' is true only up to 2^-48 (truncated hash); what is decided is that the parser compares all 6 checksum bytes with the hash of all 32 address bytes, so a corruption is accepted only on a 48-bit collision; case changes of hex digits are accepted as the same value",
                "Account text without the ed25519: prefix is accepted (as the same value); other 32-byte ID types of rhp packages"],
    "stubs": [], "assumptions": COMMON_ASSUME + IDEAL_CRYPTO,
}
MANIFEST_TEXT["C20"] = {
    "text": "Bounded model checking of the hex-based text forms only: the real MarshalText/String/UnmarshalText/ParseAddress code including encoding/hex and bytes.Split is executed symbolically on arbitrary values and on arbitrary text of every length up to one past the accepted length; table lookups are encoded as range tests.",
    "note": "Partial claim: JSON, decimal and policy text forms are outside reach (see outside_bounds). Trusted: engine, ideal hash for the address checksum. Found F9 (Account/ChainIndex text parsers panicked on over-long input).",
}

PROPS["C18"] = {
    "runs": [
        {"pkg": "types", "harness": ["harness/c18/c18.go"], "run": "^VH_C18_", "params": {"quick": {"maxn": 7}, "thorough": {"maxn": 7}}, "flags": {"quick": ["-timeout", "5000"], "thorough": ["-timeout", "20000"]},
         "must_reach": {"VH_C18_MultiproofLossless": ["end"]}, "tv_harnesses": ["VH_C18_MultiproofLossless"]},
        {"pkg": "gateway", "harness": ["harness/c18/c18_outline.go"], "run": "^VH_C18_", "params": {"quick": {"cur_lift": 1, "int_mode": 1}, "thorough": {"cur_lift": 1, "int_mode": 1}}, "flags": {"quick": ["-timeout", "5000"], "thorough": ["-timeout", "20000"]},
         "must_reach": {"VH_C18_Outline": ["end"]}},
    ],
    "tv_runs": {"quick": 2, "thorough": 4},
    "bounds": {"quick": "multiproof: forests of 4..7 symbolic leaves (siacoin, siafund, v2 contract, chain index by position) built by an independent reference; a transaction set of one or two transactions using leaves 0,1,2 (+ storage proof index leaf 3) and leaf 4; encode -> decode restores every proof (compared with the reference paths) and the full hashes; outline: block of 2 symbolic v2 transactions, all 4 omitted subsets, completion from a reversed pool with an unrelated extra transaction", "thorough": "same"},
    "outside": ["larger forests, more transactions, duplicate leaves, ephemeral parents, v1 transactions in outlines"],
    "stubs": ["sort.Slice: insertion sort driven by the real less closure"], "assumptions": COMMON_ASSUME + IDEAL_CRYPTO,
}
MANIFEST_TEXT["C18"] = {
    "text": "Bounded model checking under the ideal-hash model: the real multiproof encoder/decoder (computeMultiproof, expandMultiproof, leaf-hash copies in types/multiproof.go) run on transaction sets whose parents are genuine leaves of a reference forest; the decoded set must equal the original including every proof, which pins the leaf hashes in multiproof.go to the accumulator's definition. Outline/Complete/Missing of the gateway run on a symbolic two-transaction block for every omitted subset.",
    "note": "Trusted: ideal hash, z3, engine. Small bounds (<= 7 leaves, <= 2 transactions).",
}
PROPS["C06"] = {
    "runs": [
        {"pkg": "consensus", "harness": ["harness/c06/c06.go", "harness/c04/c04.go", "harness/c05/c05.go", "harness/common/cons_support.go"], "run": "^VH_C06_",
         "params": {"quick": {"weight_uf": 1, "tax_uf": 1, "int_mode": 1, "cur_lift": 1}, "thorough": {"weight_uf": 1, "tax_uf": 1, "int_mode": 1, "cur_lift": 1}}, "flags": {"quick": ["-timeout", "5000"], "thorough": ["-timeout", "20000"]},
         "must_reach": {"VH_C06_RevertV2Revision": ["end"], "VH_C06_BlockRoundTrip": ["end"]}},
        {"pkg": "consensus", "harness": ["harness/c05/c05.go"], "run": "^VH_C05_", "params": {"quick": {"maxn": 8, "maxk": 3, "maxu": 3}, "thorough": {"maxn": 16, "maxk": 6, "maxu": 3}},
         "flags": {"quick": ["-maxloop", "100000000", "-maxsteps", "200000000000"], "thorough": ["-maxloop", "1000000000", "-maxsteps", "20000000000000"]}, "must_reach": {"VH_C05_ApplyRevert": ["end"]}},
    ],
    "tv_runs": {"quick": 0, "thorough": 0},
    "bounds": {"quick": "RevertBlock of a block whose single v2 transaction revises a contract proven in a 4-leaf parent accumulator: the revert diffs carry the contract with its pre-block content; clients tracking the three other leaves (with their post-block proofs) end with the parent forest's paths; one v2 block spending a siacoin and a siafund element of a 4-leaf accumulator and creating an output of each kind, the claim and a miner payout, through the real ApplyBlock and RevertBlock (proof-of-work fields concrete): revert reports exactly apply's diffs reversed, every reported element and both bystanders verify against the child state after the apply, the parents verify as unspent and the bystanders' proofs are restored after the revert, re-applying gives the identical state and diffs, and neither call writes to the block, the parent state or package-level memory; the accumulator-level apply/revert/re-apply equations of C05 (n <= 8, <= 3 updated, <= 3 added)", "thorough": "C05 part at n <= 16"},
    "outside": ["block shapes other than the two above (v1 transactions and v1 contracts, v2 resolutions, attestations, more than one transaction)", "reorg depth > 1 and competing continuations (each step starts from the state the previous step was shown to restore, so deeper reorgs follow by induction on the step)"],
    "stubs": SEQ_CUTS, "assumptions": SEQ_ASSUME,
}
MANIFEST_TEXT["C06"] = {
    "text": "Bounded model checking (partial): the real ApplyBlock / RevertBlock on a symbolic state and a block spending and creating siacoin and siafund elements, the real RevertBlock on a block revising a v2 contract, with an independent naive forest as oracle for the proofs clients must end up with, plus the accumulator apply/revert/re-apply equations on symbolic leaf hashes.",
    "note": "Partial claim: v2 revision, siacoin and siafund diff kinds at block level; other kinds only through the accumulator-level equations. Trusted: ideal hash, engine.",
}
PROPS["C09"] = {
    "runs": [
        {"pkg": "consensus", "harness": ["harness/c09/c09.go", "harness/common/cons_world.go", "harness/common/cons_support.go"], "run": "^VH_C09_",
         "params": {"quick": {"weight_uf": 1, "tax_uf": 1, "spidx_uf": 1, "int_mode": 1, "cur_lift": 1}, "thorough": {"weight_uf": 1, "tax_uf": 1, "spidx_uf": 1, "int_mode": 1, "cur_lift": 1}},
         "flags": {"quick": ["-timeout", "2000"], "thorough": ["-timeout", "20000"]},
         "must_reach": {"VH_C09_NoSideEffects": ["applied", "rejected"], "VH_C09_DeepCopy": ["end"]}},
    ],
    "tv_runs": {"quick": 0, "thorough": 0},
    "bounds": {"quick": "on every explored path of ValidateV2Transaction / ValidateTransactionElements / ApplyV2Transaction (shapes: input+output, revision, resolution of each kind) the engine observes every store: none targets memory reachable from the transaction or the state, none targets package-level variables (shared mutable state is what makes concurrent calls interfere); V2Transaction.DeepCopy: every byte string / hash / proof / renewal / policy slice reachable from the copy is overwritten and no store lands in the original", "thorough": "same"},
    "outside": ["goroutine schedules and the race detector are not encoded: 'concurrency-safe' is claimed only as 'no writes to shared memory on any path' (sync.Pool is modelled as returning a fresh hasher)", "determinism across map iteration orders; block-level ValidateBlock (ApplyBlock/RevertBlock of one v2 block shape: write monitor and re-apply identity are part of C06's VH_C06_BlockRoundTrip); v1 transactions; Copy/Move/Share of single elements"],
    "stubs": SEQ_CUTS, "assumptions": SEQ_ASSUME,
}
MANIFEST_TEXT["C09"] = {
    "text": "Bounded symbolic execution with a write monitor: the engine's flat-cell memory knows which objects are reachable from the caller's arguments and which are package-level variables; every store executed on every explored path of validation/application is checked against both sets, and the aliasing of DeepCopy is decided by writing through the copy.",
    "note": "Partial claim (no schedules; v2 transaction level). Trusted: engine memory model.",
}
