#!/usr/bin/env python3
"""Regenerate /verif/MANIFEST.json from checker/props.py."""
import json, sys, os
sys.path.insert(0, "/verif/checker")
from props import PROPS, NOT_APPLICABLE, MANIFEST_TEXT

props = [json.loads(l) for l in open("/verif/properties.jsonl")]
checks = []
for p in props:
    pid = p["id"]
    if pid not in PROPS:
        continue
    t = MANIFEST_TEXT[pid]
    checks.append({
        "property_id": pid,
        "quick_cmd": "./check %s quick" % pid,
        "thorough_cmd": "./check %s thorough" % pid,
        "evidence_file": "/verif/evidence/%s.json" % pid,
        "replay_cmd_template": "./check --replay {path}",
        "engine": "symgo",
        "level_claimed": {"category": "model_checking", "text": t["text"], "design_ref": t.get("design_ref", "DESIGN.md section 3, " + pid)},
        "level_note": t["note"],
        "technique": t.get("technique", "bounded symbolic execution of the real Go SSA (own go/ssa->SMT-LIB2 encoder), z3 verdict per path obligation, native replay of counterexamples"),
    })
na = []
for p in props:
    if p["id"] not in PROPS:
        na.append({"property_id": p["id"], "reason": NOT_APPLICABLE.get(p["id"], "no check built yet in this session (solver-based harness pending)")})
m = {
    "version": 1,
    "setup_cmd": "bash /verif/setup.sh",
    "hooks": {"guard": "verif", "enable": "no source hooks: harnesses and the vh helper package are injected with go/packages overlays and `go test -overlay`", 
              "baseline_off_cmd": "cd /repo && GOFLAGS=-mod=mod GOPROXY=off go test -vet=off -count=1 ./...", "source_commits": [], "add_only": True},
    "engines": [{"name": "symgo", "path": "/verif/engine", "serves_properties": sorted(PROPS.keys()),
                 "kind_free_text": "symbolic executor for Go SSA (golang.org/x/tools/go/ssa) emitting SMT-LIB2 for z3/cvc5; forking DFS by decision-prefix re-execution; ideal-hash/ideal-signature models; native replay via go test -overlay"}],
    "checks": checks,
    "not_applicable": na,
    "notes": "All checks rebuild the SSA from /repo's working tree on every run. Exit 2 + ERROR lines mean the engine could not decide (unsupported construct, solver unknown, harness no longer type-checks); that is never reported as a pass or as a violation.",
}
json.dump(m, open("/verif/MANIFEST.json", "w"), indent=1)
print("checks:", [c["property_id"] for c in checks], "n/a:", [x["property_id"] for x in na])
