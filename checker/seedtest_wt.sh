#!/bin/bash
# usage: seedtest_wt.sh <seed-ID> [<check-ID> [tier]] -- like seedtest.sh, but applies the change in a scratch
# worktree of /repo (VERIF_REPO) and writes evidence to a scratch directory, so it can run while other checks
# use /repo. The worktree is removed afterwards.
SID=$1; CID=${2:-$1}; TIER=${3:-quick}
WT=/tmp/seedrepo_${SID}_$CID
git -C /repo worktree add -q --detach $WT HEAD || exit 2
trap "git -C /repo worktree remove --force $WT >/dev/null 2>&1" EXIT
( cd $WT && git apply --3way /verif/seeded/$SID/patch.diff 2>/dev/null ) || { echo "$SID: patch does not apply"; exit 3; }
cd /verif && VERIF_REPO=$WT VERIF_EVIDENCE_DIR=/tmp/seedev_${SID} ./check $CID $TIER > /tmp/seedtest_${SID}_$CID.out 2>&1; rc=$?
rm -rf /tmp/seedev_${SID}
echo "seed $SID -> check $CID $TIER: exit=$rc $(grep -c '^VIOLATION' /tmp/seedtest_${SID}_$CID.out) violation line(s)"; grep '^VIOLATION\|^ERROR' /tmp/seedtest_${SID}_$CID.out | cut -c1-260 | head -4
