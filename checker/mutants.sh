#!/bin/bash
# usage: mutants.sh  -- small hand-picked one-token mutations (survivors of the repo's test suite reported by the
# round-2 seed authors, plus a few of our own); each is applied with sed in a scratch worktree, the consensus/types
# tests are run to confirm it survives, then the named check harness is run with symgo against the worktree.
# Output: one line per mutant. Nothing is written to /repo or to /verif/evidence.
cd /verif
P="weight_uf=1,v1cur_fixed=1,tax_uf=1,spidx_uf=1,cflen=1,int_mode=1,cur_lift=1"
W="harness/common/cons_world.go,harness/common/cons_support.go"
run() { # name file sed-expr pkg harnessfiles runregex extra-params
  local name=$1 file=$2 expr=$3 pkg=$4 hf=$5 rx=$6 extra=$7
  local WT=/tmp/mut_$name
  git -C /repo worktree add -q --detach $WT HEAD || return
  sed -i "$expr" $WT/$file
  if (cd $WT && git diff --quiet); then echo "$name: sed did not change anything"; git -C /repo worktree remove --force $WT; return; fi
  local t=$( (cd $WT && GOFLAGS=-mod=mod GOPROXY=off go test -vet=off -count=1 ./consensus ./types ./gateway 2>&1 | grep -c "^FAIL\|^--- FAIL") )
  local out=$(timeout 1500 bin/symgo -repo $WT -pkg $pkg -harness $hf -run "$rx" -p $P$extra -timeout 1500 -j 6 -maxpaths 200000 -out /tmp/mut_$name.json 2>&1 | grep -E "VIOLATION|INCOMPLETE| ok " | head -3 | cut -c1-160 | tr '\n' ';')
  local reach=$(python3 -c "
import json,sys
d=json.load(open('/tmp/mut_$name.json'))
print(' '.join('%s=%s'%(k,v) for h in d['harnesses'] for k,v in sorted((h.get('reach_tags') or {}).items())))" 2>/dev/null)
  echo "$name: suite_fail_lines=$t | $out | reach: $reach"
  git -C /repo worktree remove --force $WT
}
run maturity_ge consensus/validation.go '654s/MaturityHeight > ms/MaturityHeight >= ms/' consensus harness/cons/v2seq.go,$W '^VH_SEQ_V2PolicyLocks$' ""
run require_gt consensus/validation.go '544s/>= ms.base.Network.HardforkV2.RequireHeight/> ms.base.Network.HardforkV2.RequireHeight/' consensus harness/cons/v2seq.go,$W '^VH_SEQ_ForkHeightsAndV1Locks$' ""
run revtimelock_ge consensus/validation.go '277s/Timelock > ms/Timelock >= ms/' consensus harness/cons/v1seq.go,$W '^VH_SEQ_V1Revision$' ""
run expiry_isspent consensus/application.go '687s/ms.isSpent(fce.ID)/false/' consensus harness/cons/v1seq.go,$W '^VH_SEQ_V1ProofAndExpirySameBlock$' ""
run pkindex_gt consensus/validation.go '497s/PublicKeyIndex >= /PublicKeyIndex > /' consensus harness/c10/c10_validate.go,$W '^VH_C10_ValidateV1$' ",mask=643"
run cfrange_copy consensus/validation.go '450s/len(txn.SiafundOutputs)/len(txn.SiafundInputs)/' consensus harness/c10/c10_validate.go,$W '^VH_C10_ValidateV1$' ",mask=12"
run v2fee_overflow consensus/validation.go '611s/add(txn.MinerFee)/_ = txn.MinerFee/' consensus harness/c10/c10_validate.go,$W '^VH_C10_ValidateV2$' ",mask=3"
run v2tax_overflow consensus/validation.go '587s/add(ms.base.V2FileContractTax(fc))/_ = fc/' consensus harness/c10/c10_validate.go,$W '^VH_C10_ValidateV2$' ",mask=17"
run v1maturity_ge consensus/validation.go '193s/MaturityHeight > ms/MaturityHeight >= ms/' consensus harness/cons/v2seq.go,$W '^VH_SEQ_ForkHeightsAndV1Locks$' ""
run sftimelock_ge consensus/validation.go '228s/Timelock > ms/Timelock >= ms/' consensus harness/cons/v1seq.go,$W '^VH_SEQ_V1SiafundClaim$' ""
