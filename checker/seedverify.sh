#!/bin/bash
# usage: seedverify.sh <ID>  -- confirm a seeded change in a scratch worktree:
# suite passes with the patch, demo fails with it, demo passes without it.
ID=$1; S=/verif/seeded/$ID; WT=/tmp/seedwt_$ID
export GOFLAGS=-mod=mod GOPROXY=off
git -C /repo worktree add -q --detach $WT HEAD || exit 2
trap "git -C /repo worktree remove --force $WT >/dev/null 2>&1" EXIT
cd $WT
PKG=$(python3 -c "import json;print(json.load(open('$S/meta.json'))['demo_pkg_dir'])")
RUN=$(python3 -c "import json;print(json.load(open('$S/meta.json'))['demo_run'])")
TEST=$(echo "$RUN" | sed -n 's/.*-run \([^ ]*\).*/\1/p')
if ! git apply --3way $S/patch.diff 2>/tmp/seedverify_$ID.err; then echo "$ID: patch does not apply: $(head -2 /tmp/seedverify_$ID.err)"; exit 3; fi
git reset -q
suite=$(go test -vet=off -count=1 ./... 2>&1 | grep -c "^FAIL")
cp $S/demo_test.go $PKG/zz_seed_demo_test.go
with=$(go test -vet=off -count=1 -run "$TEST" ./$PKG 2>&1 | tail -1 | awk '{print $1}')
git checkout -q -- . ; 
without=$(go test -vet=off -count=1 -run "$TEST" ./$PKG 2>&1 | tail -1 | awk '{print $1}')
echo "$ID: suite_fail_lines=$suite demo_with_patch=$with demo_without_patch=$without"
