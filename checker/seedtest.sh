#!/bin/bash
# usage: seedtest.sh <seed-ID> [<check-ID> [tier]] -- apply a seeded change to /repo, run a check, undo.
SID=$1; CID=${2:-$1}; TIER=${3:-quick}
cd /repo && git diff --quiet || { echo "/repo not clean"; exit 2; }
git apply --3way /verif/seeded/$SID/patch.diff 2>/dev/null || { echo "$SID: patch does not apply"; git checkout -q -- .; exit 3; }
git reset -q
cd /verif && ./check $CID $TIER > /tmp/seedtest_${SID}_$CID.out 2>&1; rc=$?
cd /repo && git checkout -q -- .
echo "seed $SID -> check $CID $TIER: exit=$rc $(grep -c '^VIOLATION' /tmp/seedtest_${SID}_$CID.out) violation line(s)"; grep '^VIOLATION\|^ERROR' /tmp/seedtest_${SID}_$CID.out | cut -c1-260 | head -4
