#!/bin/bash
# Build the symbolic engine offline from /verif/engine.
set -e
cd /verif/engine
export GOFLAGS=-mod=mod GOPROXY=off GOSUMDB=off GOTOOLCHAIN=local
export PATH=/opt/veriftools/go1.26.8/bin:$PATH
mkdir -p /verif/bin
go build -o /verif/bin/symgo .
echo "built /verif/bin/symgo"
