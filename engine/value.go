package main

import (
	"fmt"
	"strings"
	"go/types"

	"golang.org/x/tools/go/ssa"
)

// Value is one of: *Term, Ptr, SliceV, StrV, Iface, FuncV, *MapObj, Agg,
// Tuple, *Native, nil (invalid).
type Value interface{}

type Object struct {
	ID    int
	Cells []Value
	Name  string
	Dead  bool
	// epoch of creation (0 = created before the harness body, e.g. globals)
	Caller bool // reachable from harness arguments (for write-tracking)
}

type Ptr struct {
	Obj *Object
	Off int
	// Fn is set for pointers to functions? (not used)
}

type SliceV struct {
	Obj *Object
	Off int // in cells
	Len int
	Cap int
}

// SymSliceV is a freshly made slice whose length is still symbolic (bounded by
// Cap, the allocated element count). Any use other than len/cap/indexing
// concretises it (forks).
type SymSliceV struct {
	Obj *Object
	Off int
	Len *Term // 64-bit
	Cap int
}

func (x *Exec) sl(v Value) SliceV {
	switch s := v.(type) {
	case SliceV:
		return s
	case SymSliceV:
		k := x.concretize(s.Len, s.Cap+1)
		return SliceV{Obj: s.Obj, Off: s.Off, Len: k, Cap: k}
	}
	x.abort("unsupported", fmt.Sprintf("expected slice, got %T", v))
	return SliceV{}
}

type StrV struct {
	S   string
	Sym []*Term // if non-nil, symbolic bytes (len = string length); S unused
}

func (s StrV) Len() int {
	if s.Sym != nil {
		return len(s.Sym)
	}
	return len(s.S)
}

type Iface struct {
	T types.Type // dynamic type; nil = nil interface
	V Value
}

type FuncV struct {
	Fn      *ssa.Function
	Binds   []Value
	Builtin *ssa.Builtin
	// bound method closure on interface value (ssa makes wrappers, so unused)
}

type Agg []Value

type Tuple []Value

// Native is an engine-implemented object (hasher, pool, opaque error, ...).
type Native struct {
	Kind string
	Data interface{}
}

type mapEntry struct {
	K       Value
	V       Value
	Deleted bool
}

type MapObj struct {
	ID      int
	Entries []mapEntry
	KT, VT  types.Type
}

func (x *Exec) newObject(n int, name string) *Object {
	x.nextObj++
	return &Object{ID: x.nextObj, Cells: make([]Value, n), Name: name}
}

// ---- layout ----

func (x *Exec) ncells(t types.Type) int {
	if n, ok := x.layoutCache[t]; ok {
		return n
	}
	var n int
	switch u := t.Underlying().(type) {
	case *types.Struct:
		for i := 0; i < u.NumFields(); i++ {
			n += x.ncells(u.Field(i).Type())
		}
	case *types.Array:
		n = int(u.Len()) * x.ncells(u.Elem())
	case *types.Tuple:
		panic("ncells of tuple")
	default:
		n = 1
	}
	x.layoutCache[t] = n
	return n
}

func (x *Exec) fieldOff(st *types.Struct, idx int) int {
	off := 0
	for i := 0; i < idx; i++ {
		off += x.ncells(st.Field(i).Type())
	}
	return off
}

func isAggType(t types.Type) bool {
	switch t.Underlying().(type) {
	case *types.Struct, *types.Array:
		return true
	}
	return false
}

func intWidth(b *types.Basic) (w int, signed bool, ok bool) {
	switch b.Kind() {
	case types.Int8:
		return 8, true, true
	case types.Int16:
		return 16, true, true
	case types.Int32, types.UntypedRune:
		return 32, true, true
	case types.Int64, types.Int, types.UntypedInt:
		return 64, true, true
	case types.Uint8:
		return 8, false, true
	case types.Uint16:
		return 16, false, true
	case types.Uint32:
		return 32, false, true
	case types.Uint64, types.Uint, types.Uintptr:
		return 64, false, true
	}
	return 0, false, false
}

func typeIntWidth(t types.Type) (int, bool, bool) {
	if b, ok := t.Underlying().(*types.Basic); ok {
		return intWidth(b)
	}
	return 0, false, false
}

// zeroCells appends the zero value cells of t to dst.
func (x *Exec) zeroCells(dst []Value, t types.Type) []Value {
	switch u := t.Underlying().(type) {
	case *types.Struct:
		for i := 0; i < u.NumFields(); i++ {
			dst = x.zeroCells(dst, u.Field(i).Type())
		}
		return dst
	case *types.Array:
		n := int(u.Len())
		if n == 0 {
			return dst
		}
		ec := x.ncells(u.Elem())
		if ec == 1 {
			z := x.zeroLeaf(u.Elem())
			for i := 0; i < n; i++ {
				dst = append(dst, z)
			}
			return dst
		}
		for i := 0; i < n; i++ {
			dst = x.zeroCells(dst, u.Elem())
		}
		return dst
	}
	return append(dst, x.zeroLeaf(t))
}

func (x *Exec) zeroLeaf(t types.Type) Value {
	switch u := t.Underlying().(type) {
	case *types.Basic:
		if w, _, ok := intWidth(u); ok {
			return x.ts.ConstU(w, 0)
		}
		switch u.Kind() {
		case types.Bool, types.UntypedBool:
			return x.ts.False
		case types.String, types.UntypedString:
			return StrV{}
		case types.UnsafePointer:
			return Ptr{}
		case types.Float64, types.Float32, types.UntypedFloat:
			return &Native{Kind: "float", Data: 0.0}
		case types.UntypedNil:
			return nil
		}
		panic(fmt.Sprintf("zeroLeaf basic %v", u))
	case *types.Pointer:
		return Ptr{}
	case *types.Slice:
		return SliceV{}
	case *types.Map:
		return (*MapObj)(nil)
	case *types.Signature:
		return FuncV{}
	case *types.Interface:
		return Iface{}
	case *types.Chan:
		return &Native{Kind: "chan"}
	case *types.Struct, *types.Array:
		// a zero-size aggregate used as leaf? return empty Agg
		return Agg(nil)
	}
	panic(fmt.Sprintf("zeroLeaf %v (%T)", t, t.Underlying()))
}

func (x *Exec) zero(t types.Type) Value {
	if isAggType(t) {
		return Agg(x.zeroCells(nil, t))
	}
	return x.zeroLeaf(t)
}

// cellsOf flattens a value of type t into cells.
func (x *Exec) cellsOf(v Value, t types.Type) []Value {
	if isAggType(t) {
		a, ok := v.(Agg)
		if !ok {
			panic(fmt.Sprintf("expected Agg for %v, got %T", t, v))
		}
		return a
	}
	return []Value{v}
}

func (x *Exec) fromCells(c []Value, t types.Type) Value {
	if isAggType(t) {
		out := make(Agg, len(c))
		copy(out, c)
		return out
	}
	return c[0]
}

func (x *Exec) load(p Ptr, t types.Type) Value {
	if p.Obj == nil {
		x.goPanic("nil-deref", "nil pointer dereference")
	}
	n := x.ncells(t)
	if p.Off < 0 || p.Off+n > len(p.Obj.Cells) {
		x.abort("unsupported", fmt.Sprintf("load out of object bounds: off %d n %d len %d (%s) type %v", p.Off, n, len(p.Obj.Cells), p.Obj.Name, t))
	}
	if p.Obj.Dead {
		x.event("use-after-put", p.Obj.Name)
	}
	if isAggType(t) {
		out := make(Agg, n)
		copy(out, p.Obj.Cells[p.Off:p.Off+n])
		for i, c := range out {
			if c == nil {
				x.abort("unsupported", fmt.Sprintf("load of uninitialised cell %d of %s", p.Off+i, p.Obj.Name))
			}
		}
		return out
	}
	c := p.Obj.Cells[p.Off]
	if c == nil {
		x.abort("unsupported", fmt.Sprintf("load of uninitialised cell %d of %s", p.Off, p.Obj.Name))
	}
	return x.adapt(c, t)
}

// adapt reinterprets a stored leaf cell for the static type it is read as
// (needed only for unsafe re-typing; bool<->byte etc. are not supported).
func (x *Exec) adapt(c Value, t types.Type) Value {
	return c
}

func (x *Exec) store(p Ptr, t types.Type, v Value) {
	if p.Obj == nil {
		x.goPanic("nil-deref", "nil pointer dereference (store)")
	}
	n := x.ncells(t)
	if p.Off < 0 || p.Off+n > len(p.Obj.Cells) {
		x.abort("unsupported", fmt.Sprintf("store out of object bounds: off %d n %d len %d (%s)", p.Off, n, len(p.Obj.Cells), p.Obj.Name))
	}
	if n == 0 {
		return
	}
	if x.trackWrites {
		if p.Obj.Caller {
			x.writeEvents++
			x.event("caller-write", fmt.Sprintf("%s+%d at %s", p.Obj.Name, p.Off, x.where()))
		} else if strings.HasPrefix(p.Obj.Name, "global:") {
			x.writeEvents++
			x.event("global-write", fmt.Sprintf("%s+%d at %s", p.Obj.Name, p.Off, x.where()))
		}
	}
	if isAggType(t) {
		a := v.(Agg)
		if len(a) != n {
			panic(fmt.Sprintf("store agg size mismatch %d vs %d for %v", len(a), n, t))
		}
		copy(p.Obj.Cells[p.Off:], a)
		return
	}
	p.Obj.Cells[p.Off] = v
}
