module symgo

go 1.26.0

require golang.org/x/tools v0.49.0

require (
	golang.org/x/mod v0.39.0 // indirect
	golang.org/x/sync v0.22.0 // indirect
)

require golang.org/x/crypto v0.55.0
require golang.org/x/sys v0.47.0 // indirect
