package main

// Hash-consed term DAG with an eager simplifier. Sorts: Bool (W==0) and
// BitVec(W). One TermStore per executor (no sharing between goroutines).

import (
	"fmt"
	"math/big"
	"strings"
)

type Op uint8

const (
	OpConst Op = iota
	OpVar
	OpNot
	OpAnd
	OpOr
	OpEq
	OpIte
	OpBvAdd
	OpBvSub
	OpBvMul
	OpBvUDiv
	OpBvURem
	OpBvSDiv
	OpBvSRem
	OpBvAnd
	OpBvOr
	OpBvXor
	OpBvNot
	OpBvNeg
	OpBvShl
	OpBvLShr
	OpBvAShr
	OpBvULt
	OpBvULe
	OpBvSLt
	OpBvSLe
	OpConcat
	OpExtract
	OpSExt
	OpUF // uninterpreted function application; name in Name
)

var opSMT = map[Op]string{
	OpNot: "not", OpAnd: "and", OpOr: "or", OpEq: "=", OpIte: "ite",
	OpBvAdd: "bvadd", OpBvSub: "bvsub", OpBvMul: "bvmul", OpBvUDiv: "bvudiv", OpBvURem: "bvurem",
	OpBvSDiv: "bvsdiv", OpBvSRem: "bvsrem", OpBvAnd: "bvand", OpBvOr: "bvor", OpBvXor: "bvxor",
	OpBvNot: "bvnot", OpBvNeg: "bvneg", OpBvShl: "bvshl", OpBvLShr: "bvlshr", OpBvAShr: "bvashr",
	OpBvULt: "bvult", OpBvULe: "bvule", OpBvSLt: "bvslt", OpBvSLe: "bvsle", OpConcat: "concat",
}

type Term struct {
	ID   int
	Op   Op
	W    int // 0 = Bool
	Args []*Term
	Val  *big.Int // OpConst (for Bool: 0/1)
	Name string   // OpVar, OpUF
	Hi   int      // OpExtract
	Lo   int
}

func (t *Term) IsConst() bool { return t.Op == OpConst }
func (t *Term) IsBool() bool  { return t.W == 0 }
func (t *Term) IsTrue() bool  { return t.Op == OpConst && t.W == 0 && t.Val.Sign() != 0 }
func (t *Term) IsFalse() bool { return t.Op == OpConst && t.W == 0 && t.Val.Sign() == 0 }
func (t *Term) Uint64() uint64 {
	return t.Val.Uint64()
}

// UFDecl describes an uninterpreted function.
type UFDecl struct {
	Name string
	ArgW []int
	ResW int
}

type TermStore struct {
	tab   map[string]*Term
	next  int
	True  *Term
	False *Term
	UFs   map[string]*UFDecl
	ufOrd []string
	// vars in creation order
	Vars []*Term
	// hook called whenever a new UF application is created (for axiom instantiation)
	OnUF func(t *Term)
}

func NewTermStore() *TermStore {
	ts := &TermStore{tab: map[string]*Term{}, UFs: map[string]*UFDecl{}}
	ts.True = ts.mk(&Term{Op: OpConst, W: 0, Val: big.NewInt(1)})
	ts.False = ts.mk(&Term{Op: OpConst, W: 0, Val: big.NewInt(0)})
	return ts
}

func (ts *TermStore) key(t *Term) string {
	var sb strings.Builder
	fmt.Fprintf(&sb, "%d:%d:", t.Op, t.W)
	switch t.Op {
	case OpConst:
		sb.WriteString(t.Val.Text(16))
	case OpVar:
		sb.WriteString(t.Name)
	case OpExtract:
		fmt.Fprintf(&sb, "%d,%d,", t.Hi, t.Lo)
	case OpUF:
		sb.WriteString(t.Name)
		sb.WriteByte(',')
	}
	for _, a := range t.Args {
		fmt.Fprintf(&sb, "#%d", a.ID)
	}
	return sb.String()
}

func (ts *TermStore) mk(t *Term) *Term {
	k := ts.key(t)
	if e, ok := ts.tab[k]; ok {
		return e
	}
	t.ID = ts.next
	ts.next++
	ts.tab[k] = t
	if t.Op == OpVar {
		ts.Vars = append(ts.Vars, t)
	}
	if t.Op == OpUF && ts.OnUF != nil {
		ts.OnUF(t)
	}
	return t
}

// injFamily reports whether the UF name belongs to a family of injective
// functions with pairwise disjoint ranges, and which.
func injFamily(name string) (string, bool) {
	for _, p := range []string{"H_", "S256_", "SIG_"} {
		if strings.HasPrefix(name, p) {
			return p, true
		}
	}
	return "", false
}

var bigOne = big.NewInt(1)

func mask(w int) *big.Int {
	m := new(big.Int).Lsh(bigOne, uint(w))
	return m.Sub(m, bigOne)
}

func norm(v *big.Int, w int) *big.Int {
	r := new(big.Int).And(v, mask(w))
	return r
}

func toSigned(v *big.Int, w int) *big.Int {
	if v.Bit(w-1) == 1 {
		return new(big.Int).Sub(v, new(big.Int).Lsh(bigOne, uint(w)))
	}
	return new(big.Int).Set(v)
}

func (ts *TermStore) Const(w int, v *big.Int) *Term {
	if w == 0 {
		if v.Sign() != 0 {
			return ts.True
		}
		return ts.False
	}
	return ts.mk(&Term{Op: OpConst, W: w, Val: norm(v, w)})
}

func (ts *TermStore) ConstU(w int, v uint64) *Term {
	return ts.Const(w, new(big.Int).SetUint64(v))
}

func (ts *TermStore) ConstI(w int, v int64) *Term {
	return ts.Const(w, big.NewInt(v))
}

func (ts *TermStore) Bool(b bool) *Term {
	if b {
		return ts.True
	}
	return ts.False
}

func (ts *TermStore) Var(name string, w int) *Term {
	return ts.mk(&Term{Op: OpVar, W: w, Name: name})
}

func (ts *TermStore) DeclareUF(name string, argW []int, resW int) *UFDecl {
	if d, ok := ts.UFs[name]; ok {
		return d
	}
	d := &UFDecl{Name: name, ArgW: argW, ResW: resW}
	ts.UFs[name] = d
	ts.ufOrd = append(ts.ufOrd, name)
	return d
}

func (ts *TermStore) UF(name string, resW int, args ...*Term) *Term {
	if _, ok := ts.UFs[name]; !ok {
		aw := make([]int, len(args))
		for i, a := range args {
			aw[i] = a.W
		}
		ts.DeclareUF(name, aw, resW)
	}
	return ts.mk(&Term{Op: OpUF, W: resW, Name: name, Args: args})
}

// ---- boolean ----

func (ts *TermStore) Not(a *Term) *Term {
	if a.W != 0 {
		panic("Not on non-bool")
	}
	if a.IsConst() {
		return ts.Bool(a.IsFalse())
	}
	if a.Op == OpNot {
		return a.Args[0]
	}
	// push negation into comparisons for canonical form
	switch a.Op {
	case OpBvULt:
		return ts.ULe(a.Args[1], a.Args[0])
	case OpBvULe:
		return ts.ULt(a.Args[1], a.Args[0])
	case OpBvSLt:
		return ts.SLe(a.Args[1], a.Args[0])
	case OpBvSLe:
		return ts.SLt(a.Args[1], a.Args[0])
	}
	return ts.mk(&Term{Op: OpNot, W: 0, Args: []*Term{a}})
}

func (ts *TermStore) And(as ...*Term) *Term {
	var out []*Term
	seen := map[int]bool{}
	for _, a := range as {
		if a.W != 0 {
			panic("And on non-bool")
		}
		if a.IsFalse() {
			return ts.False
		}
		if a.IsTrue() {
			continue
		}
		if a.Op == OpAnd {
			for _, b := range a.Args {
				if !seen[b.ID] {
					seen[b.ID] = true
					out = append(out, b)
				}
			}
			continue
		}
		if !seen[a.ID] {
			seen[a.ID] = true
			out = append(out, a)
		}
	}
	for _, a := range out {
		if a.Op == OpNot && seen[a.Args[0].ID] {
			return ts.False
		}
	}
	if len(out) == 0 {
		return ts.True
	}
	if len(out) == 1 {
		return out[0]
	}
	return ts.mk(&Term{Op: OpAnd, W: 0, Args: out})
}

func (ts *TermStore) Or(as ...*Term) *Term {
	var out []*Term
	seen := map[int]bool{}
	for _, a := range as {
		if a.W != 0 {
			panic("Or on non-bool")
		}
		if a.IsTrue() {
			return ts.True
		}
		if a.IsFalse() {
			continue
		}
		if a.Op == OpOr {
			for _, b := range a.Args {
				if !seen[b.ID] {
					seen[b.ID] = true
					out = append(out, b)
				}
			}
			continue
		}
		if !seen[a.ID] {
			seen[a.ID] = true
			out = append(out, a)
		}
	}
	for _, a := range out {
		if a.Op == OpNot && seen[a.Args[0].ID] {
			return ts.True
		}
	}
	if len(out) == 0 {
		return ts.False
	}
	if len(out) == 1 {
		return out[0]
	}
	return ts.mk(&Term{Op: OpOr, W: 0, Args: out})
}

func (ts *TermStore) Implies(a, b *Term) *Term { return ts.Or(ts.Not(a), b) }

func (ts *TermStore) Eq(a, b *Term) *Term {
	if a.W != b.W {
		panic(fmt.Sprintf("Eq width mismatch %d vs %d", a.W, b.W))
	}
	if a == b {
		return ts.True
	}
	if a.IsConst() && b.IsConst() {
		return ts.Bool(a.Val.Cmp(b.Val) == 0)
	}
	if a.W == 0 {
		if a.IsConst() {
			a, b = b, a
		}
		if b.IsTrue() {
			return a
		}
		if b.IsFalse() {
			return ts.Not(a)
		}
	}
	// injective uninterpreted functions (ideal hashes, ideal signatures):
	// f(x) = f(y) <=> x = y, and different members of one family (input
	// lengths) have disjoint ranges. Sound under the axioms emitted for them.
	if a.Op == OpUF && b.Op == OpUF {
		if fa, ok := injFamily(a.Name); ok {
			if fb, ok2 := injFamily(b.Name); ok2 && fa == fb {
				if a.Name != b.Name {
					return ts.False
				}
				var conj []*Term
				for i := range a.Args {
					conj = append(conj, ts.Eq(a.Args[i], b.Args[i]))
				}
				return ts.And(conj...)
			}
		}
	}
	// concat vs concat / const: split along the concat's segments
	if a.W > 0 {
		if a.Op != OpConcat && b.Op == OpConcat {
			a, b = b, a
		}
		if a.Op == OpConcat && (b.Op == OpConcat || b.IsConst()) {
			var parts []*Term
			hi := a.W
			for _, seg := range a.Args {
				lo := hi - seg.W
				parts = append(parts, ts.Eq(seg, ts.Extract(b, hi-1, lo)))
				hi = lo
			}
			return ts.And(parts...)
		}
		// ite(c, k1, rest) == k with constants k1, k: descend the chain (tables)
		if b.IsConst() && a.Op == OpIte && a.Args[1].IsConst() && !a.Args[2].IsConst() && a.Args[2].Op == OpIte && iteChainLen(a) <= 300 {
			return ts.Ite(a.Args[0], ts.Bool(a.Args[1].Val.Cmp(b.Val) == 0), ts.Eq(a.Args[2], b))
		}
		if a.IsConst() && b.Op == OpIte && b.Args[1].IsConst() && !b.Args[2].IsConst() && b.Args[2].Op == OpIte && iteChainLen(b) <= 300 {
			return ts.Eq(b, a)
		}
		// ite(c, k1, k2) == k  with constants
		if b.IsConst() && a.Op == OpIte && a.Args[1].IsConst() && a.Args[2].IsConst() {
			e1 := a.Args[1].Val.Cmp(b.Val) == 0
			e2 := a.Args[2].Val.Cmp(b.Val) == 0
			switch {
			case e1 && e2:
				return ts.True
			case e1:
				return a.Args[0]
			case e2:
				return ts.Not(a.Args[0])
			default:
				return ts.False
			}
		}
		if a.IsConst() && b.Op == OpIte && b.Args[1].IsConst() && b.Args[2].IsConst() {
			return ts.Eq(b, a)
		}
	}
	if a.ID > b.ID {
		a, b = b, a
	}
	return ts.mk(&Term{Op: OpEq, W: 0, Args: []*Term{a, b}})
}

// EqRaw builds an equality without the injective-UF rewrite (used for the
// injectivity axioms themselves).
func (ts *TermStore) EqRaw(a, b *Term) *Term {
	if a == b {
		return ts.True
	}
	if a.ID > b.ID {
		a, b = b, a
	}
	return ts.mk(&Term{Op: OpEq, W: 0, Args: []*Term{a, b}})
}

// iteChainLen: length of a chain ite(c1,k1,ite(c2,k2,...k)) with constant
// leaves; a large number if t is not such a chain.
func iteChainLen(t *Term) int {
	n := 0
	for t.Op == OpIte && t.Args[1].IsConst() {
		t = t.Args[2]
		n++
		if n > 1000 {
			return n
		}
	}
	if !t.IsConst() {
		return 1 << 30
	}
	return n
}

// IteChain returns the conditions, values and default of a constant-leaf ite
// chain, looking through a zero extension.
func IteChain(t *Term) (conds []*Term, vals []*big.Int, def *big.Int, ok bool) {
	if t.Op == OpConcat && len(t.Args) == 2 && isZero(t.Args[0]) {
		t = t.Args[1]
	}
	if t.Op != OpIte || iteChainLen(t) > 300 {
		return nil, nil, nil, false
	}
	for t.Op == OpIte {
		conds = append(conds, t.Args[0])
		vals = append(vals, t.Args[1].Val)
		t = t.Args[2]
	}
	return conds, vals, t.Val, true
}

func (ts *TermStore) Ite(c, a, b *Term) *Term {
	if c.W != 0 {
		panic("Ite cond not bool")
	}
	if a.W != b.W {
		panic(fmt.Sprintf("Ite width mismatch %d vs %d", a.W, b.W))
	}
	if c.IsTrue() {
		return a
	}
	if c.IsFalse() {
		return b
	}
	if a == b {
		return a
	}
	if a.W == 0 {
		if a.IsTrue() && b.IsFalse() {
			return c
		}
		if a.IsFalse() && b.IsTrue() {
			return ts.Not(c)
		}
		if a.IsTrue() {
			return ts.Or(c, b)
		}
		if a.IsFalse() {
			return ts.And(ts.Not(c), b)
		}
		if b.IsTrue() {
			return ts.Or(ts.Not(c), a)
		}
		if b.IsFalse() {
			return ts.And(c, a)
		}
	}
	if c.Op == OpNot {
		return ts.Ite(c.Args[0], b, a)
	}
	// ite(c, ite(c, x, y), z) -> ite(c, x, z)
	if a.Op == OpIte && a.Args[0] == c {
		a = a.Args[1]
	}
	if b.Op == OpIte && b.Args[0] == c {
		b = b.Args[2]
	}
	return ts.mk(&Term{Op: OpIte, W: a.W, Args: []*Term{c, a, b}})
}

// ---- bit-vector ----

func (ts *TermStore) binConst(op Op, a, b *Term) *Term {
	w := a.W
	x, y := a.Val, b.Val
	r := new(big.Int)
	switch op {
	case OpBvAdd:
		r.Add(x, y)
	case OpBvSub:
		r.Sub(x, y)
	case OpBvMul:
		r.Mul(x, y)
	case OpBvUDiv:
		if y.Sign() == 0 {
			return ts.Const(w, mask(w))
		}
		r.Div(x, y)
	case OpBvURem:
		if y.Sign() == 0 {
			return a
		}
		r.Mod(x, y)
	case OpBvSDiv:
		if y.Sign() == 0 {
			if toSigned(x, w).Sign() < 0 {
				return ts.ConstU(w, 1)
			}
			return ts.Const(w, mask(w))
		}
		r.Quo(toSigned(x, w), toSigned(y, w))
	case OpBvSRem:
		if y.Sign() == 0 {
			return a
		}
		r.Rem(toSigned(x, w), toSigned(y, w))
	case OpBvAnd:
		r.And(x, y)
	case OpBvOr:
		r.Or(x, y)
	case OpBvXor:
		r.Xor(x, y)
	case OpBvShl:
		if y.Cmp(big.NewInt(int64(w))) >= 0 {
			return ts.ConstU(w, 0)
		}
		r.Lsh(x, uint(y.Uint64()))
	case OpBvLShr:
		if y.Cmp(big.NewInt(int64(w))) >= 0 {
			return ts.ConstU(w, 0)
		}
		r.Rsh(x, uint(y.Uint64()))
	case OpBvAShr:
		s := toSigned(x, w)
		sh := uint(w)
		if y.Cmp(big.NewInt(int64(w))) < 0 {
			sh = uint(y.Uint64())
		}
		r.Rsh(s, sh)
	default:
		panic("binConst")
	}
	return ts.Const(w, r)
}

func (ts *TermStore) bin(op Op, a, b *Term) *Term {
	if a.W != b.W || a.W == 0 {
		panic(fmt.Sprintf("bv op %s width mismatch %d vs %d", opSMT[op], a.W, b.W))
	}
	if a.IsConst() && b.IsConst() {
		return ts.binConst(op, a, b)
	}
	return ts.mk(&Term{Op: op, W: a.W, Args: []*Term{a, b}})
}

func isZero(t *Term) bool { return t.IsConst() && t.Val.Sign() == 0 }
func isOnes(t *Term) bool { return t.IsConst() && t.W > 0 && t.Val.Cmp(mask(t.W)) == 0 }

func (ts *TermStore) Add(a, b *Term) *Term {
	if isZero(a) {
		return b
	}
	if isZero(b) {
		return a
	}
	if a.IsConst() && !b.IsConst() {
		a, b = b, a
	}
	// (x + c1) + c2
	if b.IsConst() && a.Op == OpBvAdd && a.Args[1].IsConst() {
		return ts.Add(a.Args[0], ts.binConst(OpBvAdd, a.Args[1], b))
	}
	// (x - c1) + c2  [sub is normalised to add of negated const, so rarely hit]
	return ts.bin(OpBvAdd, a, b)
}

func (ts *TermStore) Sub(a, b *Term) *Term {
	if isZero(b) {
		return a
	}
	if a == b {
		return ts.ConstU(a.W, 0)
	}
	if b.IsConst() {
		return ts.Add(a, ts.Neg(b))
	}
	// (x + y) - y
	if a.Op == OpBvAdd {
		if a.Args[1] == b {
			return a.Args[0]
		}
		if a.Args[0] == b {
			return a.Args[1]
		}
	}
	return ts.bin(OpBvSub, a, b)
}

func (ts *TermStore) Mul(a, b *Term) *Term {
	if isZero(a) || isZero(b) {
		return ts.ConstU(a.W, 0)
	}
	if a.IsConst() && a.Val.Cmp(bigOne) == 0 {
		return b
	}
	if b.IsConst() && b.Val.Cmp(bigOne) == 0 {
		return a
	}
	if a.IsConst() && !b.IsConst() {
		a, b = b, a
	}
	return ts.bin(OpBvMul, a, b)
}

func (ts *TermStore) UDiv(a, b *Term) *Term {
	if b.IsConst() && b.Val.Cmp(bigOne) == 0 {
		return a
	}
	return ts.bin(OpBvUDiv, a, b)
}
func (ts *TermStore) URem(a, b *Term) *Term { return ts.bin(OpBvURem, a, b) }
func (ts *TermStore) SDiv(a, b *Term) *Term { return ts.bin(OpBvSDiv, a, b) }
func (ts *TermStore) SRem(a, b *Term) *Term { return ts.bin(OpBvSRem, a, b) }

// segments returns the term as a list of (term) segments, msb first, if it is a
// concat; otherwise a single segment.
func segs(t *Term) []*Term {
	if t.Op == OpConcat {
		return t.Args
	}
	return []*Term{t}
}

// bitwiseSeg applies a bitwise op segment-wise when one of the operands is a
// concat (so that or-of-shifted-bytes becomes a concat).
func (ts *TermStore) bitwiseSeg(op Op, a, b *Term) *Term {
	// collect boundaries
	cut := map[int]bool{}
	for _, t := range []*Term{a, b} {
		hi := t.W
		for _, s := range segs(t) {
			hi -= s.W
			cut[hi] = true
		}
	}
	var parts []*Term
	hi := a.W
	for lo := a.W - 1; lo >= 0; lo-- {
		if cut[lo] {
			x := ts.Extract(a, hi-1, lo)
			y := ts.Extract(b, hi-1, lo)
			parts = append(parts, ts.bitwise1(op, x, y))
			hi = lo
		}
	}
	return ts.Concat(parts...)
}

func (ts *TermStore) bitwise1(op Op, a, b *Term) *Term {
	if a.IsConst() && b.IsConst() {
		return ts.binConst(op, a, b)
	}
	if a.IsConst() && !b.IsConst() {
		a, b = b, a
	}
	switch op {
	case OpBvAnd:
		if isZero(b) {
			return b
		}
		if isOnes(b) {
			return a
		}
		if a == b {
			return a
		}
	case OpBvOr:
		if isZero(b) {
			return a
		}
		if isOnes(b) {
			return b
		}
		if a == b {
			return a
		}
	case OpBvXor:
		if isZero(b) {
			return a
		}
		if a == b {
			return ts.ConstU(a.W, 0)
		}
	}
	if a.ID > b.ID {
		a, b = b, a
	}
	return ts.mk(&Term{Op: op, W: a.W, Args: []*Term{a, b}})
}

// constRuns splits a constant into maximal runs of equal bits; returns the cut
// positions. Used so that x & 0x00ff00 becomes concat(0, x[15:8], 0).
func constSegs(ts *TermStore, c *Term) *Term {
	if c.W <= 1 {
		return c
	}
	var parts []*Term
	hi := c.W - 1
	cur := c.Val.Bit(hi)
	start := hi
	n := 0
	for i := hi - 1; i >= -1; i-- {
		var b uint
		if i >= 0 {
			b = c.Val.Bit(i)
		}
		if i < 0 || b != cur {
			parts = append(parts, ts.Extract(c, start, i+1))
			n++
			if n > 8 {
				return c
			}
			start = i
			cur = b
		}
	}
	if len(parts) <= 1 {
		return c
	}
	return ts.mk(&Term{Op: OpConcat, W: c.W, Args: parts})
}

func (ts *TermStore) bitwise(op Op, a, b *Term) *Term {
	if a.W != b.W || a.W == 0 {
		panic(fmt.Sprintf("bitwise width mismatch %d vs %d", a.W, b.W))
	}
	if a.IsConst() && b.IsConst() {
		return ts.binConst(op, a, b)
	}
	if a.Op == OpConcat || b.Op == OpConcat {
		return ts.bitwiseSeg(op, a, b)
	}
	// and/or with a run-structured constant mask
	if (op == OpBvAnd || op == OpBvOr) && (a.IsConst() || b.IsConst()) {
		c, x := a, b
		if b.IsConst() {
			c, x = b, a
		}
		if !isZero(c) && !isOnes(c) {
			cs := constSegs(ts, c)
			if cs.Op == OpConcat {
				return ts.bitwiseSeg(op, x, cs)
			}
		}
	}
	return ts.bitwise1(op, a, b)
}

func (ts *TermStore) BvAnd(a, b *Term) *Term { return ts.bitwise(OpBvAnd, a, b) }
func (ts *TermStore) BvOr(a, b *Term) *Term  { return ts.bitwise(OpBvOr, a, b) }
func (ts *TermStore) BvXor(a, b *Term) *Term { return ts.bitwise(OpBvXor, a, b) }

func (ts *TermStore) BvNot(a *Term) *Term {
	if a.IsConst() {
		return ts.Const(a.W, new(big.Int).Xor(a.Val, mask(a.W)))
	}
	if a.Op == OpBvNot {
		return a.Args[0]
	}
	return ts.mk(&Term{Op: OpBvNot, W: a.W, Args: []*Term{a}})
}

func (ts *TermStore) Neg(a *Term) *Term {
	if a.IsConst() {
		return ts.Const(a.W, new(big.Int).Neg(a.Val))
	}
	return ts.mk(&Term{Op: OpBvNeg, W: a.W, Args: []*Term{a}})
}

func (ts *TermStore) Shl(a, b *Term) *Term {
	if isZero(b) {
		return a
	}
	if b.IsConst() {
		if b.Val.Cmp(big.NewInt(int64(a.W))) >= 0 {
			return ts.ConstU(a.W, 0)
		}
		k := int(b.Val.Uint64())
		return ts.Concat(ts.Extract(a, a.W-1-k, 0), ts.ConstU(k, 0))
	}
	return ts.bin(OpBvShl, a, b)
}

func (ts *TermStore) LShr(a, b *Term) *Term {
	if isZero(b) {
		return a
	}
	if b.IsConst() {
		if b.Val.Cmp(big.NewInt(int64(a.W))) >= 0 {
			return ts.ConstU(a.W, 0)
		}
		k := int(b.Val.Uint64())
		return ts.Concat(ts.ConstU(k, 0), ts.Extract(a, a.W-1, k))
	}
	return ts.bin(OpBvLShr, a, b)
}

func (ts *TermStore) AShr(a, b *Term) *Term {
	if isZero(b) {
		return a
	}
	return ts.bin(OpBvAShr, a, b)
}

func (ts *TermStore) cmp(op Op, a, b *Term) *Term {
	if a.W != b.W || a.W == 0 {
		panic(fmt.Sprintf("cmp width mismatch %d vs %d", a.W, b.W))
	}
	if a.IsConst() && b.IsConst() {
		var c int
		if op == OpBvULt || op == OpBvULe {
			c = a.Val.Cmp(b.Val)
		} else {
			c = toSigned(a.Val, a.W).Cmp(toSigned(b.Val, b.W))
		}
		if op == OpBvULt || op == OpBvSLt {
			return ts.Bool(c < 0)
		}
		return ts.Bool(c <= 0)
	}
	if a == b {
		return ts.Bool(op == OpBvULe || op == OpBvSLe)
	}
	// comparison of a constant-leaf ite chain (table read) with a constant
	if b.IsConst() && a.Op == OpIte && a.Args[1].IsConst() && (a.Args[2].IsConst() || a.Args[2].Op == OpIte) && iteChainLen(a) <= 300 {
		return ts.Ite(a.Args[0], ts.cmp(op, a.Args[1], b), ts.cmp(op, a.Args[2], b))
	}
	if a.IsConst() && b.Op == OpIte && b.Args[1].IsConst() && (b.Args[2].IsConst() || b.Args[2].Op == OpIte) && iteChainLen(b) <= 300 {
		return ts.Ite(b.Args[0], ts.cmp(op, a, b.Args[1]), ts.cmp(op, a, b.Args[2]))
	}
	switch op {
	case OpBvULt:
		if isZero(b) {
			return ts.False
		}
		if isZero(a) {
			return ts.Not(ts.Eq(b, a))
		}
		if isOnes(a) {
			return ts.False
		}
	case OpBvULe:
		if isZero(a) {
			return ts.True
		}
		if isOnes(b) {
			return ts.True
		}
		if isZero(b) {
			return ts.Eq(a, b)
		}
	}
	return ts.mk(&Term{Op: op, W: 0, Args: []*Term{a, b}})
}

func (ts *TermStore) ULt(a, b *Term) *Term { return ts.cmp(OpBvULt, a, b) }
func (ts *TermStore) ULe(a, b *Term) *Term { return ts.cmp(OpBvULe, a, b) }
func (ts *TermStore) SLt(a, b *Term) *Term { return ts.cmp(OpBvSLt, a, b) }
func (ts *TermStore) SLe(a, b *Term) *Term { return ts.cmp(OpBvSLe, a, b) }

func (ts *TermStore) Concat(parts ...*Term) *Term {
	// flatten, drop zero-width, merge constants and adjacent extracts
	var flat []*Term
	for _, p := range parts {
		if p == nil || p.W == 0 && p.Op != OpConst {
			if p != nil && p.W == 0 {
				panic("Concat of Bool")
			}
			continue
		}
		if p.Op == OpConcat {
			flat = append(flat, p.Args...)
		} else {
			flat = append(flat, p)
		}
	}
	var out []*Term
	for _, p := range flat {
		if p.W == 0 {
			continue
		}
		if len(out) > 0 {
			l := out[len(out)-1]
			if l.IsConst() && p.IsConst() {
				v := new(big.Int).Lsh(l.Val, uint(p.W))
				v.Or(v, p.Val)
				out[len(out)-1] = ts.Const(l.W+p.W, v)
				continue
			}
			if l.Op == OpExtract && p.Op == OpExtract && l.Args[0] == p.Args[0] && l.Lo == p.Hi+1 {
				out[len(out)-1] = ts.Extract(l.Args[0], l.Hi, p.Lo)
				continue
			}
			// whole term followed/preceded by extract is not mergeable
		}
		out = append(out, p)
	}
	if len(out) == 0 {
		panic("empty concat")
	}
	if len(out) == 1 {
		return out[0]
	}
	w := 0
	for _, p := range out {
		w += p.W
	}
	return ts.mk(&Term{Op: OpConcat, W: w, Args: out})
}

func (ts *TermStore) Extract(a *Term, hi, lo int) *Term {
	if hi < lo || lo < 0 || hi >= a.W {
		if hi == lo-1 {
			// zero-width: represent as nil-like; callers avoid
			panic("zero-width extract")
		}
		panic(fmt.Sprintf("bad extract [%d:%d] of width %d", hi, lo, a.W))
	}
	if lo == 0 && hi == a.W-1 {
		return a
	}
	w := hi - lo + 1
	switch a.Op {
	case OpConst:
		return ts.Const(w, new(big.Int).Rsh(a.Val, uint(lo)))
	case OpExtract:
		return ts.Extract(a.Args[0], a.Lo+hi, a.Lo+lo)
	case OpConcat:
		var parts []*Term
		top := a.W
		for _, s := range a.Args {
			bot := top - s.W
			// segment covers bits [top-1 : bot]
			h := min(hi, top-1)
			l := max(lo, bot)
			if h >= l {
				parts = append(parts, ts.Extract(s, h-bot, l-bot))
			}
			top = bot
		}
		return ts.Concat(parts...)
	case OpIte:
		if a.Args[1].IsConst() || a.Args[2].IsConst() {
			return ts.Ite(a.Args[0], ts.Extract(a.Args[1], hi, lo), ts.Extract(a.Args[2], hi, lo))
		}
	case OpBvAnd, OpBvOr, OpBvXor:
		return ts.bitwise(a.Op, ts.Extract(a.Args[0], hi, lo), ts.Extract(a.Args[1], hi, lo))
	case OpBvNot:
		return ts.BvNot(ts.Extract(a.Args[0], hi, lo))
	case OpSExt:
		if hi < a.Args[0].W {
			return ts.Extract(a.Args[0], hi, lo)
		}
	}
	return ts.mk(&Term{Op: OpExtract, W: w, Args: []*Term{a}, Hi: hi, Lo: lo})
}

func (ts *TermStore) ZExt(a *Term, w int) *Term {
	if w == a.W {
		return a
	}
	if w < a.W {
		return ts.Extract(a, w-1, 0)
	}
	return ts.Concat(ts.ConstU(w-a.W, 0), a)
}

func (ts *TermStore) SExt(a *Term, w int) *Term {
	if w == a.W {
		return a
	}
	if w < a.W {
		return ts.Extract(a, w-1, 0)
	}
	if a.IsConst() {
		return ts.Const(w, toSigned(a.Val, a.W))
	}
	// sign bit known zero?
	if a.Op == OpConcat && isZero(a.Args[0]) {
		return ts.Concat(ts.ConstU(w-a.W, 0), a)
	}
	return ts.mk(&Term{Op: OpSExt, W: w, Args: []*Term{a}})
}

// BoolToBV converts a Bool to a 1/0 bit-vector of width w.
func (ts *TermStore) BoolToBV(c *Term, w int) *Term {
	return ts.Ite(c, ts.ConstU(w, 1), ts.ConstU(w, 0))
}

// ---- SMT-LIB printing ----

func sortStr(w int) string {
	if w == 0 {
		return "Bool"
	}
	return fmt.Sprintf("(_ BitVec %d)", w)
}

func smtConst(t *Term) string {
	if t.W == 0 {
		if t.Val.Sign() != 0 {
			return "true"
		}
		return "false"
	}
	if t.W%4 == 0 {
		s := t.Val.Text(16)
		return "#x" + strings.Repeat("0", t.W/4-len(s)) + s
	}
	return fmt.Sprintf("(_ bv%s %d)", t.Val.String(), t.W)
}

func smtName(n string) string {
	return "|" + strings.NewReplacer("|", "_", "\\", "_").Replace(n) + "|"
}

// Size returns number of distinct nodes reachable from t.
func (t *Term) Size() int {
	seen := map[int]bool{}
	var rec func(*Term)
	rec = func(x *Term) {
		if seen[x.ID] {
			return
		}
		seen[x.ID] = true
		for _, a := range x.Args {
			rec(a)
		}
	}
	rec(t)
	return len(seen)
}

// String renders a (possibly large) term inline; for debugging and samples.
func (t *Term) String() string {
	var sb strings.Builder
	var rec func(x *Term, d int)
	rec = func(x *Term, d int) {
		if sb.Len() > 400 {
			return
		}
		switch x.Op {
		case OpConst:
			sb.WriteString(smtConst(x))
		case OpVar:
			sb.WriteString(x.Name)
		case OpExtract:
			fmt.Fprintf(&sb, "((_ extract %d %d) ", x.Hi, x.Lo)
			rec(x.Args[0], d+1)
			sb.WriteString(")")
		default:
			n := opSMT[x.Op]
			if x.Op == OpUF {
				n = x.Name
			}
			if x.Op == OpSExt {
				n = "sext"
			}
			sb.WriteString("(" + n)
			for _, a := range x.Args {
				sb.WriteString(" ")
				if d > 6 {
					sb.WriteString("…")
				} else {
					rec(a, d+1)
				}
			}
			sb.WriteString(")")
		}
	}
	rec(t, 0)
	if sb.Len() > 400 {
		return sb.String()[:400] + "…"
	}
	return sb.String()
}
