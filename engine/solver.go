package main

// Long-lived SMT solver processes driven over stdin/stdout with push/pop.

import (
	"bufio"
	"fmt"
	"io"
	"math/big"
	"os"
	"os/exec"
	"strings"
	"time"
)

type SolverKind int

const (
	Z3Old SolverKind = iota
	Z3New
	CVC5
)

func (k SolverKind) String() string { return [...]string{"z3-4.8.12", "z3-5.1.0", "cvc5-1.0"}[k] }

type Result int

const (
	Unsat Result = iota
	Sat
	Unknown
)

func (r Result) String() string { return [...]string{"unsat", "sat", "unknown"}[r] }

type scope struct {
	terms []int
	ufs   []string
	lines []string
	apps  int // number of injective-family applications registered in this scope
}

type Solver struct {
	Kind    SolverKind
	ts      *TermStore
	cmd     *exec.Cmd
	in      io.WriteCloser
	out     *bufio.Reader
	defined map[int]bool
	ufDecl  map[string]bool
	scopes  []scope
	// Axioms returns extra assertions to emit when a UF application is first
	// defined in this solver context.
	Axioms  func(t *Term) []*Term
	Queries int
	Time    time.Duration
	Errors  int
	FallbackQueries int
	Restarts int
	IntQueries int
	IntAlt   bool // integer mode: cvc5 first, then z3, then z3-new (param int_alt)
	OneShot  bool
	log     io.Writer
	timeout int // ms
	dead    bool
	pendingAx []*Term
	injApps   []*Term
}

func NewSolver(kind SolverKind, ts *TermStore, timeoutMs int) (*Solver, error) {
	return NewSolverMode(kind, ts, timeoutMs, false)
}

func NewSolverMode(kind SolverKind, ts *TermStore, timeoutMs int, oneShot bool) (*Solver, error) {
	s := &Solver{Kind: kind, ts: ts, OneShot: oneShot, defined: map[int]bool{}, ufDecl: map[string]bool{}, scopes: []scope{{}}, timeout: timeoutMs}
	if f := os.Getenv("SYMGO_SMTLOG"); f != "" {
		w, _ := os.OpenFile(fmt.Sprintf("%s.%d.%d.smt2", f, os.Getpid(), kind), os.O_CREATE|os.O_WRONLY|os.O_APPEND, 0o644)
		s.log = w
	}
	if err := s.start(); err != nil {
		return nil, err
	}
	return s, nil
}

// start launches the solver process and sends the preamble.
func (s *Solver) start() error {
	kind, timeoutMs := s.Kind, s.timeout
	if s.OneShot {
		s.dead = false
		return nil
	}
	var cmd *exec.Cmd
	switch kind {
	case Z3Old:
		cmd = exec.Command("z3", "-in", "-smt2")
	case Z3New:
		cmd = exec.Command("z3-new", "-in", "-smt2")
	case CVC5:
		cmd = exec.Command("cvc5", "--incremental", "--lang=smt2", "--produce-models", fmt.Sprintf("--tlimit-per=%d", timeoutMs))
	}
	in, err := cmd.StdinPipe()
	if err != nil {
		return err
	}
	out, err := cmd.StdoutPipe()
	if err != nil {
		return err
	}
	cmd.Stderr = cmd.Stdout
	if err := cmd.Start(); err != nil {
		return err
	}
	s.cmd, s.in, s.out, s.dead = cmd, in, bufio.NewReaderSize(out, 1<<20), false
	if kind != CVC5 {
		s.send(fmt.Sprintf("(set-option :timeout %d)", timeoutMs))
		s.send("(set-option :model.completion true)")
	} else {
		s.send("(set-logic ALL)")
	}
	return nil
}

// restart replaces the solver process (after a timeout or an error the old
// one may be in a cancelled state in which it drops commands) and replays the
// recorded assertion stack into the new one.
func (s *Solver) restart() {
	if s.OneShot {
		return
	}
	if !s.dead {
		s.in.Close()
		s.cmd.Process.Kill()
		s.cmd.Wait()
	}
	s.Restarts++
	if err := s.start(); err != nil {
		s.dead = true
		return
	}
	for i, sc := range s.scopes {
		if i > 0 {
			s.send("(push 1)")
		}
		for _, l := range sc.lines {
			s.send(l)
		}
	}
}

func (s *Solver) SetTimeout(ms int) {
	s.timeout = ms
	if s.Kind != CVC5 {
		s.send(fmt.Sprintf("(set-option :timeout %d)", ms))
	}
}

func (s *Solver) Close() {
	if s.dead || s.OneShot {
		return
	}
	s.dead = true
	s.in.Close()
	s.cmd.Process.Kill()
	s.cmd.Wait()
}

func (s *Solver) send(line string) {
	if s.log != nil {
		io.WriteString(s.log, line+"\n")
	}
	if s.OneShot {
		return
	}
	io.WriteString(s.in, line+"\n")
}

// sendCtx sends a context-building command (declaration, definition,
// assertion) and records it so the context can be replayed into a fallback
// solver.
func (s *Solver) sendCtx(line string) {
	sc := &s.scopes[len(s.scopes)-1]
	sc.lines = append(sc.lines, line)
	s.send(line)
}

// Script returns the current assertion stack as a standalone SMT-LIB script.
func (s *Solver) Script() string {
	var sb strings.Builder
	for _, sc := range s.scopes {
		for _, l := range sc.lines {
			sb.WriteString(l)
			sb.WriteByte('\n')
		}
	}
	return sb.String()
}

// runOneShot runs the current context in a fresh solver process.
func (s *Solver) runOneShot(args []string, valueNames []string) (Result, string) {
	script := s.Script() + "(check-sat)\n"
	if len(valueNames) > 0 {
		for i := 0; i < len(valueNames); i += 200 {
			j := min(i+200, len(valueNames))
			script += "(get-value (" + strings.Join(valueNames[i:j], " ") + "))\n"
		}
	}
	f, err := os.CreateTemp("", "symgo-q-*.smt2")
	if err != nil {
		return Unknown, ""
	}
	defer os.Remove(f.Name())
	f.WriteString(script)
	f.Close()
	start := time.Now()
	ctx := exec.Command(args[0], append(args[1:], f.Name())...)
	timer := time.AfterFunc(time.Duration(s.timeout+600000)*time.Millisecond, func() { ctx.Process.Kill() })
	out, _ := ctx.CombinedOutput()
	timer.Stop()
	s.Time += time.Since(start)
	txt := string(out)
	if strings.Contains(txt, "(error") {
		if !strings.Contains(txt, "model is not available") {
			s.Errors++
		}
	}
	lines := strings.Split(txt, "\n")
	for i, l := range lines {
		l = strings.TrimSpace(l)
		if l == "unsat" {
			return Unsat, ""
		}
		if l == "sat" {
			return Sat, strings.Join(lines[i+1:], " ")
		}
	}
	return Unknown, ""
}

// CheckModel checks the current context and, when satisfiable, returns the
// values of the given terms (which must be defined in the context).
func (s *Solver) CheckModel(terms []*Term) (Result, map[int]*big.Int) {
	if !s.OneShot {
		r := s.Check()
		if r != Sat {
			return r, nil
		}
		vals, err := s.Values(terms)
		if err != nil {
			return Sat, map[int]*big.Int{}
		}
		return Sat, vals
	}
	s.flushAxioms()
	var names []string
	var idx []*Term
	res := map[int]*big.Int{}
	for _, t := range terms {
		if t.IsConst() {
			res[t.ID] = t.Val
			continue
		}
		names = append(names, tname(t))
		idx = append(idx, t)
	}
	s.Queries++
	r, txt := s.runOneShot([]string{"z3", "-smt2", fmt.Sprintf("-t:%d", s.timeout)}, names)
	if r != Sat {
		return r, nil
	}
	// several get-value answers are concatenated; parse each "((..))" group
	vals := parseValuesMulti(txt)
	if len(vals) == len(idx) {
		for i, v := range vals {
			res[idx[i].ID] = v
		}
	}
	return Sat, res
}

func parseValuesMulti(txt string) []*big.Int {
	var out []*big.Int
	depth := 0
	start := -1
	for i := 0; i < len(txt); i++ {
		switch txt[i] {
		case '|':
			j := strings.IndexByte(txt[i+1:], '|')
			if j < 0 {
				return out
			}
			i += j + 1
		case '(':
			if depth == 0 {
				start = i
			}
			depth++
		case ')':
			depth--
			if depth == 0 && start >= 0 {
				out = append(out, parseValues(txt[start:i+1])...)
				start = -1
			}
		}
	}
	return out
}

// Fallback runs the current context one-shot in other solvers (cvc5, then
// z3 5.1). If valueNames is non-empty and the answer is sat, the values are
// returned as the raw get-value text.
func (s *Solver) Fallback(timeoutMs int, valueNames []string) (Result, string, string) {
	script := s.Script() + "(check-sat)\n"
	if len(valueNames) > 0 {
		script += "(get-value (" + strings.Join(valueNames, " ") + "))\n"
	}
	f, err := os.CreateTemp("", "symgo-fb-*.smt2")
	if err != nil {
		return Unknown, "", ""
	}
	defer os.Remove(f.Name())
	f.WriteString(script)
	f.Close()
	type cand struct {
		name string
		args []string
	}
	cands := []cand{
		{"z3-4.8.12", []string{"z3", "-smt2", fmt.Sprintf("-t:%d", timeoutMs), f.Name()}},
		{"cvc5-1.0", []string{"cvc5", "--lang=smt2", "--produce-models", fmt.Sprintf("--tlimit=%d", timeoutMs), f.Name()}},
		{"z3-5.1.0", []string{"z3-new", "-smt2", fmt.Sprintf("-t:%d", timeoutMs), f.Name()}},
	}
	for ci, c := range cands {
		if ci == 0 && s.OneShot {
			continue // already tried
		}
		start := time.Now()
		ctx := exec.Command(c.args[0], c.args[1:]...)
		timer := time.AfterFunc(time.Duration(timeoutMs+5000)*time.Millisecond, func() { ctx.Process.Kill() })
		out, _ := ctx.CombinedOutput()
		timer.Stop()
		s.Time += time.Since(start)
		s.FallbackQueries++
		txt := string(out)
		if strings.Contains(txt, "(error") {
			continue
		}
		lines := strings.Split(txt, "\n")
		for i, l := range lines {
			l = strings.TrimSpace(l)
			if l == "unsat" {
				return Unsat, "", c.name
			}
			if l == "sat" {
				return Sat, strings.Join(lines[i+1:], " "), c.name
			}
		}
	}
	return Unknown, "", ""
}

func (s *Solver) Push() {
	s.send("(push 1)")
	s.scopes = append(s.scopes, scope{})
}

func (s *Solver) Pop() {
	sc := s.scopes[len(s.scopes)-1]
	s.scopes = s.scopes[:len(s.scopes)-1]
	for _, id := range sc.terms {
		delete(s.defined, id)
	}
	for _, u := range sc.ufs {
		delete(s.ufDecl, u)
	}
	s.injApps = s.injApps[:len(s.injApps)-sc.apps]
	s.send("(pop 1)")
}

func (s *Solver) Depth() int { return len(s.scopes) - 1 }

func (s *Solver) mark(id int) {
	s.defined[id] = true
	sc := &s.scopes[len(s.scopes)-1]
	sc.terms = append(sc.terms, id)
}

func tname(t *Term) string {
	switch t.Op {
	case OpConst:
		return smtConst(t)
	case OpVar:
		return smtName(t.Name)
	}
	return fmt.Sprintf("t%d", t.ID)
}

// define makes sure t (and everything below it) is declared in the current
// solver context.
func (s *Solver) define(t *Term) {
	if t.Op == OpConst || s.defined[t.ID] {
		return
	}
	for _, a := range t.Args {
		s.define(a)
	}
	switch t.Op {
	case OpVar:
		s.sendCtx(fmt.Sprintf("(declare-const %s %s)", smtName(t.Name), sortStr(t.W)))
	case OpUF:
		if !s.ufDecl[t.Name] {
			d := s.ts.UFs[t.Name]
			var as []string
			for _, w := range d.ArgW {
				as = append(as, sortStr(w))
			}
			s.sendCtx(fmt.Sprintf("(declare-fun %s (%s) %s)", smtName(t.Name), strings.Join(as, " "), sortStr(d.ResW)))
			s.ufDecl[t.Name] = true
			sc := &s.scopes[len(s.scopes)-1]
			sc.ufs = append(sc.ufs, t.Name)
		}
		var as []string
		for _, a := range t.Args {
			as = append(as, tname(a))
		}
		if len(as) == 0 {
			s.sendCtx(fmt.Sprintf("(define-fun t%d () %s %s)", t.ID, sortStr(t.W), smtName(t.Name)))
		} else {
			s.sendCtx(fmt.Sprintf("(define-fun t%d () %s (%s %s))", t.ID, sortStr(t.W), smtName(t.Name), strings.Join(as, " ")))
		}
	case OpExtract:
		s.sendCtx(fmt.Sprintf("(define-fun t%d () %s ((_ extract %d %d) %s))", t.ID, sortStr(t.W), t.Hi, t.Lo, tname(t.Args[0])))
	case OpSExt:
		s.sendCtx(fmt.Sprintf("(define-fun t%d () %s ((_ sign_extend %d) %s))", t.ID, sortStr(t.W), t.W-t.Args[0].W, tname(t.Args[0])))
	default:
		var as []string
		for _, a := range t.Args {
			as = append(as, tname(a))
		}
		s.sendCtx(fmt.Sprintf("(define-fun t%d () %s (%s %s))", t.ID, sortStr(t.W), opSMT[t.Op], strings.Join(as, " ")))
	}
	s.mark(t.ID)
	if t.Op == OpUF && s.Axioms != nil {
		s.pendingAx = append(s.pendingAx, s.Axioms(t)...)
	}
	if t.Op == OpUF {
		if fam, ok := injFamily(t.Name); ok {
			// pairwise injectivity / range-disjointness with every application of
			// the same family currently defined
			for _, u := range s.injApps {
				if fu, _ := injFamily(u.Name); fu != fam {
					continue
				}
				if u.Name != t.Name {
					s.pendingAx = append(s.pendingAx, s.ts.Not(s.ts.EqRaw(t, u)))
					continue
				}
				var conj []*Term
				for i := range t.Args {
					conj = append(conj, s.ts.Eq(t.Args[i], u.Args[i]))
				}
				s.pendingAx = append(s.pendingAx, s.ts.Implies(s.ts.EqRaw(t, u), s.ts.And(conj...)))
			}
			// an ideal hash never outputs the all-zero digest (the code uses the
			// zero hash / void address as a sentinel)
			if fam != "SIG_" && t.W == 256 {
				s.pendingAx = append(s.pendingAx, s.ts.Not(s.ts.EqRaw(t, s.ts.ConstU(256, 0))))
			}
			// acyclicity (no hash fixed points / cycles): a hash is "younger" than
			// every 256-bit piece of its own pre-image
			if fam != "SIG_" && len(t.Args) == 1 {
				for _, seg := range segs(t.Args[0]) {
					if seg.W == 256 && !seg.IsConst() {
						s.pendingAx = append(s.pendingAx, s.ts.ULt(s.ts.UF("Hrank", 32, seg), s.ts.UF("Hrank", 32, t)))
					}
				}
			}
			s.injApps = append(s.injApps, t)
			s.scopes[len(s.scopes)-1].apps++
		}
	}
}

func (s *Solver) flushAxioms() {
	for len(s.pendingAx) > 0 {
		ax := s.pendingAx
		s.pendingAx = nil
		for _, a := range ax {
			s.define(a)
			s.sendCtx(fmt.Sprintf("(assert %s)", tname(a)))
		}
	}
}

// DefineOnly declares/defines t (and emits UF axioms) without asserting it.
func (s *Solver) DefineOnly(t *Term) {
	if t.IsConst() {
		return
	}
	s.define(t)
	s.flushAxioms()
}

func (s *Solver) Assert(t *Term) {
	if t.IsTrue() {
		return
	}
	s.define(t)
	s.flushAxioms()
	s.sendCtx(fmt.Sprintf("(assert %s)", tname(t)))
}

const endMarker = "<<END>>"

func (s *Solver) readUntilMarker() ([]string, error) {
	var lines []string
	for {
		line, err := s.out.ReadString('\n')
		if err != nil {
			return lines, err
		}
		line = strings.TrimSpace(line)
		if strings.Contains(line, endMarker) {
			return lines, nil
		}
		if line != "" {
			lines = append(lines, line)
		}
	}
}

// Check runs check-sat in the current context.
func (s *Solver) Check() Result {
	if s.dead {
		return Unknown
	}
	s.flushAxioms()
	if s.OneShot {
		s.Queries++
		r, _ := s.runOneShot([]string{"z3", "-smt2", fmt.Sprintf("-t:%d", s.timeout)}, nil)
		return r
	}
	start := time.Now()
	s.send("(check-sat)")
	s.send(fmt.Sprintf("(echo \"%s\")", endMarker))
	lines, err := s.readUntilMarker()
	s.Time += time.Since(start)
	s.Queries++
	if err != nil {
		s.dead = true
		s.Errors++
		s.restart()
		return Unknown
	}
	res := Unknown
	for _, l := range lines {
		if strings.HasPrefix(l, "(error") {
			s.Errors++
			fmt.Fprintf(os.Stderr, "solver %s error: %s\n", s.Kind, l)
			s.restart()
			return Unknown
		}
	}
	for _, l := range lines {
		switch l {
		case "sat":
			res = Sat
		case "unsat":
			res = Unsat
		}
	}
	if res == Unknown {
		// timed out: the process may be left cancelled; start afresh
		s.restart()
	}
	return res
}

// CheckWith checks PC ∧ extra without changing the context.
func (s *Solver) CheckWith(extra ...*Term) Result {
	s.Push()
	for _, e := range extra {
		s.Assert(e)
	}
	r := s.Check()
	s.Pop()
	return r
}

// Values returns model values for the given terms (after a Sat result, in
// the same context).
func (s *Solver) Values(terms []*Term) (map[int]*big.Int, error) {
	res := map[int]*big.Int{}
	var names []string
	var idx []*Term
	for _, t := range terms {
		if t.IsConst() {
			res[t.ID] = t.Val
			continue
		}
		if !s.defined[t.ID] {
			// cannot define after check-sat without invalidating model in some solvers; skip
			continue
		}
		names = append(names, tname(t))
		idx = append(idx, t)
	}
	for i := 0; i < len(names); i += 200 {
		j := min(i+200, len(names))
		s.send(fmt.Sprintf("(get-value (%s))", strings.Join(names[i:j], " ")))
		s.send(fmt.Sprintf("(echo \"%s\")", endMarker))
		lines, err := s.readUntilMarker()
		if err != nil {
			return res, err
		}
		txt := strings.Join(lines, " ")
		if strings.Contains(txt, "(error") {
			return res, fmt.Errorf("get-value: %s", txt)
		}
		vals := parseValues(txt)
		if len(vals) != j-i {
			return res, fmt.Errorf("get-value: expected %d values, got %d: %.200s", j-i, len(vals), txt)
		}
		for k, v := range vals {
			res[idx[i+k].ID] = v
		}
	}
	return res, nil
}

// parseValues parses "((name val) (name val) ...)" and returns the values in order.
func parseValues(s string) []*big.Int {
	var out []*big.Int
	// tokenise
	toks := tokenize(s)
	// structure: ( ( name val ) ( name val ) )
	depth := 0
	var cur []string
	for _, t := range toks {
		switch t {
		case "(":
			depth++
			if depth == 2 {
				cur = nil
			} else if depth > 2 {
				cur = append(cur, t)
			}
		case ")":
			if depth == 2 {
				out = append(out, parseVal(cur))
			} else if depth > 2 {
				cur = append(cur, t)
			}
			depth--
		default:
			if depth >= 2 {
				cur = append(cur, t)
			}
		}
	}
	return out
}

func tokenize(s string) []string {
	var toks []string
	i := 0
	for i < len(s) {
		c := s[i]
		switch {
		case c == '(' || c == ')':
			toks = append(toks, string(c))
			i++
		case c == ' ' || c == '\n' || c == '\t' || c == '\r':
			i++
		case c == '|':
			j := strings.IndexByte(s[i+1:], '|')
			toks = append(toks, s[i:i+j+2])
			i += j + 2
		default:
			j := i
			for j < len(s) && !strings.ContainsRune("() \n\t\r", rune(s[j])) {
				j++
			}
			toks = append(toks, s[i:j])
			i = j
		}
	}
	return toks
}

// parseVal: tokens after the name: e.g. [name #x00ff] or [name ( _ bv5 8 )] or [name true]
func parseVal(toks []string) *big.Int {
	if len(toks) < 2 {
		return big.NewInt(0)
	}
	// the name may itself be a parenthesised expr? we only query named consts, so name is toks[0]
	v := toks[1:]
	if len(v) == 1 {
		t := v[0]
		switch {
		case t == "true":
			return big.NewInt(1)
		case t == "false":
			return big.NewInt(0)
		case strings.HasPrefix(t, "#x"):
			r, _ := new(big.Int).SetString(t[2:], 16)
			return r
		case strings.HasPrefix(t, "#b"):
			r, _ := new(big.Int).SetString(t[2:], 2)
			return r
		}
		return big.NewInt(0)
	}
	// ( _ bvN W )
	for _, t := range v {
		if strings.HasPrefix(t, "bv") {
			r, ok := new(big.Int).SetString(t[2:], 10)
			if ok {
				return r
			}
		}
	}
	return big.NewInt(0)
}
