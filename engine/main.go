package main

import (
	"encoding/json"
	"flag"
	"fmt"
	"os"
	"path/filepath"
	"regexp"
	"sort"
	"strconv"
	"strings"
	"sync"
	"time"

	"golang.org/x/tools/go/packages"
	"golang.org/x/tools/go/ssa"
	"golang.org/x/tools/go/ssa/ssautil"
)

type item struct {
	h      int
	prefix []int
}

type Output struct {
	Repo       string           `json:"repo"`
	Packages   []string         `json:"packages"`
	LoadS      float64          `json:"load_s"`
	WallS      float64          `json:"wall_s"`
	Solver     string           `json:"solver"`
	Params     map[string]int   `json:"params"`
	Harnesses  []*HarnessResult `json:"harnesses"`
	Errors     []string         `json:"errors"`
	SolverTime float64          `json:"solver_time_s"`
}

func main() {
	var (
		repo      = flag.String("repo", "/repo", "repository root")
		pkgFlag   = flag.String("pkg", "", "package dir relative to repo for harness injection (e.g. types)")
		harnessF  = flag.String("harness", "", "comma-separated harness .go files (injected into -pkg)")
		vhStub    = flag.String("vh", "/verif/vh/stub/vh.go", "vh stub source")
		runRe     = flag.String("run", "^VH_", "regexp of harness functions")
		skipRe    = flag.String("skip", "", "regexp of harness functions to skip")
		params    = flag.String("p", "", "params k=v,k=v")
		out       = flag.String("out", "", "output json")
		jobs      = flag.Int("j", 8, "workers")
		maxPaths  = flag.Int("maxpaths", 20000, "max paths per harness")
		maxLoop   = flag.Int("maxloop", 300, "loop bound per loop head per frame")
		maxLen    = flag.Int("maxlen", 16, "bound for symbolic lengths")
		timeoutMs = flag.Int("timeout", 1500, "solver timeout per query (ms)")
		fallbackMs = flag.Int("fallback", 120000, "timeout (ms) for the cvc5 / z3-5.1 fallback on unknown; 0 disables")
		oneShot   = flag.Bool("oneshot", false, "run every query in a fresh z3 process (no incremental solving)")
		solverK   = flag.String("solver", "z3", "z3 | z3new | cvc5")
		verbose   = flag.Bool("v", false, "verbose")
		maxSteps  = flag.Int64("maxsteps", 50_000_000, "SSA instruction budget per path")
		goBin     = flag.String("gobin", "/opt/veriftools/go1.26.8/bin", "directory of the go tool used for loading")
		budgetS   = flag.Int("budget", 0, "wall-clock budget in seconds for the whole run (0 = none)")
	)
	inject := flag.String("inject", "", "extra overlay files: pkgdir=file,pkgdir=file")
	genOut := flag.String("gencodecs", "", "generate codec harness file for -pkg and exit")
	genSkip := flag.String("genskip", "", "comma-separated ids to skip in generation")
	genSupport := flag.String("gensupport", "", "hand-written support file (normalisers/shapers)")
	flag.Parse()
	if *genOut != "" {
		genCodecs(*repo, *pkgFlag, *genOut, *genSkip, *genSupport)
		return
	}
	t0 := time.Now()
	pm := map[string]int{}
	if *params != "" {
		for _, kv := range strings.Split(*params, ",") {
			p := strings.SplitN(kv, "=", 2)
			if len(p) == 2 {
				v, _ := strconv.Atoi(p[1])
				pm[p[0]] = v
			}
		}
	}
	if w, ok := pm["big_w"]; ok && w >= 64 && w <= 640 {
		bigW = w
	}
	overlay := map[string][]byte{}
	stub, err := os.ReadFile(*vhStub)
	if err != nil {
		fatal("read vh stub: %v", err)
	}
	overlay[filepath.Join(*repo, "internal/vh/vh.go")] = stub
	for _, h := range strings.Split(*harnessF, ",") {
		if h == "" {
			continue
		}
		src, err := os.ReadFile(h)
		if err != nil {
			fatal("read harness: %v", err)
		}
		overlay[filepath.Join(*repo, *pkgFlag, "zz_vh_"+filepath.Base(h))] = src
	}
	for _, kv := range strings.Split(*inject, ",") {
		if p := strings.SplitN(kv, "=", 2); len(p) == 2 {
			src, err := os.ReadFile(p[1])
			if err != nil {
				fatal("read inject: %v", err)
			}
			overlay[filepath.Join(*repo, p[0], "zz_vh_"+filepath.Base(p[1]))] = src
		}
	}
	os.Setenv("PATH", *goBin+":"+os.Getenv("PATH"))
	cfg := &packages.Config{
		Mode:    packages.LoadAllSyntax,
		Dir:     *repo,
		Overlay: overlay,
		Env:     append(os.Environ(), "GOFLAGS=-mod=mod", "GOPROXY=off", "GOTOOLCHAIN=local", "GOWORK=off", "PATH="+*goBin+":"+os.Getenv("PATH")),
	}
	pkgs, err := packages.Load(cfg, "./"+*pkgFlag)
	if err != nil {
		fatal("load: %v", err)
	}
	nerr := 0
	packages.Visit(pkgs, nil, func(p *packages.Package) {
		for _, e := range p.Errors {
			if strings.HasPrefix(p.PkgPath, "go.sia.tech/core") {
				fmt.Fprintf(os.Stderr, "ERROR harness-build %s: %v\n", p.PkgPath, e)
				nerr++
			}
		}
	})
	if nerr > 0 {
		os.Exit(2)
	}
	prog, spkgs := ssautil.AllPackages(pkgs, ssa.InstantiateGenerics)
	prog.Build()
	loadS := time.Since(t0).Seconds()
	if *verbose {
		fmt.Fprintf(os.Stderr, "loaded+built in %.1fs\n", loadS)
	}
	re := regexp.MustCompile(*runRe)
	var skipR *regexp.Regexp
	if *skipRe != "" {
		skipR = regexp.MustCompile(*skipRe)
	}
	var fns []*ssa.Function
	var pkgNames []string
	for _, sp := range spkgs {
		if sp == nil {
			continue
		}
		pkgNames = append(pkgNames, sp.Pkg.Path())
		var names []string
		for n, m := range sp.Members {
			if f, ok := m.(*ssa.Function); ok && strings.HasPrefix(n, "VH_") && re.MatchString(n) && (skipR == nil || !skipR.MatchString(n)) {
				names = append(names, f.Name())
			}
		}
		sort.Strings(names)
		for _, n := range names {
			fns = append(fns, sp.Func(n))
		}
	}
	if len(fns) == 0 {
		fatal("no harness functions match %q", *runRe)
	}
	kind := Z3Old
	switch *solverK {
	case "z3new":
		kind = Z3New
	case "cvc5":
		kind = CVC5
	}

	results := make([]*HarnessResult, len(fns))
	starts := make([]time.Time, len(fns))
	incSet := make([]map[string]bool, len(fns))
	unsSet := make([]map[string]bool, len(fns))
	fnSet := make([]map[string]bool, len(fns))
	pending := make([]int, len(fns))
	for i, f := range fns {
		results[i] = &HarnessResult{Name: f.Name(), Reached: map[string]int{}, Panics: map[string]int{}}
		incSet[i] = map[string]bool{}
		unsSet[i] = map[string]bool{}
		fnSet[i] = map[string]bool{}
	}
	var mu sync.Mutex
	cond := sync.NewCond(&mu)
	var queue []item
	for i := range fns {
		queue = append(queue, item{h: i})
		pending[i] = 1
	}
	active := 0
	var solverTime float64
	var errs []string
	deadline := time.Time{}
	if *budgetS > 0 {
		deadline = t0.Add(time.Duration(*budgetS) * time.Second)
	}

	var wg sync.WaitGroup
	for w := 0; w < *jobs; w++ {
		wg.Add(1)
		go func(w int) {
			defer wg.Done()
			ts := NewTermStore()
			sol, err := NewSolverMode(kind, ts, *timeoutMs, *oneShot)
			if err != nil {
				mu.Lock()
				errs = append(errs, err.Error())
				mu.Unlock()
				return
			}
			sol.IntAlt = pm["int_alt"] == 1
			defer sol.Close()
			x := &Exec{prog: prog, ts: ts, sol: sol, layoutCache: nil,
				cfg: Config{MaxPaths: *maxPaths, MaxLoop: *maxLoop, MaxDepth: 400, MaxLen: *maxLen, MaxSteps: *maxSteps, TimeoutMs: *timeoutMs, FallbackMs: *fallbackMs, Params: pm, Verbose: *verbose}}
			x.initLayout()
			sol.Axioms = x.ufAxioms
			for {
				mu.Lock()
				for len(queue) == 0 && active > 0 {
					cond.Wait()
				}
				if len(queue) == 0 {
					mu.Unlock()
					cond.Broadcast()
					return
				}
				it := queue[len(queue)-1]
				queue = queue[:len(queue)-1]
				hr := results[it.h]
				skip := false
				if hr.Paths >= *maxPaths {
					incSet[it.h][fmt.Sprintf("path budget %d exhausted", *maxPaths)] = true
					skip = true
				}
				if !deadline.IsZero() && time.Now().After(deadline) {
					incSet[it.h]["wall-clock budget exhausted"] = true
					skip = true
				}
				if skip {
					pending[it.h]--
					mu.Unlock()
					continue
				}
				if hr.Paths == 0 {
					starts[it.h] = time.Now()
				}
				hr.Paths++
				active++
				mu.Unlock()

				q0, t0s := sol.Queries, sol.Time
				local, alts := x.RunOne(fns[it.h], it.prefix)

				mu.Lock()
				active--
				mergeResult(hr, local, incSet[it.h], unsSet[it.h], fnSet[it.h])
				hr.Queries += 0
				_ = q0
				hr.SolverTimeS += (sol.Time - t0s).Seconds()
				solverTime += (sol.Time - t0s).Seconds()
				for _, a := range alts {
					queue = append(queue, item{h: it.h, prefix: a})
					pending[it.h]++
				}
				pending[it.h]--
				if pending[it.h] == 0 {
					hr.WallS = time.Since(starts[it.h]).Seconds()
				}
				if *verbose && hr.Paths%100 == 0 {
					fmt.Fprintf(os.Stderr, "[%s] paths=%d queue=%d\n", hr.Name, hr.Paths, len(queue))
				}
				mu.Unlock()
				cond.Broadcast()
			}
		}(w)
	}
	wg.Wait()
	for i, hr := range results {
		for k := range incSet[i] {
			hr.Incomplete = append(hr.Incomplete, k)
		}
		for k := range unsSet[i] {
			hr.Unsupported = append(hr.Unsupported, k)
		}
		for k := range fnSet[i] {
			hr.Functions = append(hr.Functions, k)
		}
		sort.Strings(hr.Incomplete)
		sort.Strings(hr.Unsupported)
		sort.Strings(hr.Functions)
		if hr.WallS == 0 && !starts[i].IsZero() {
			hr.WallS = time.Since(starts[i]).Seconds()
		}
	}
	o := Output{Repo: *repo, Packages: pkgNames, LoadS: loadS, WallS: time.Since(t0).Seconds(), Solver: kind.String(),
		Params: pm, Harnesses: results, Errors: errs, SolverTime: solverTime}
	data, _ := json.MarshalIndent(o, "", " ")
	if *out != "" {
		os.WriteFile(*out, data, 0o644)
	} else {
		os.Stdout.Write(data)
	}
	// summary on stderr
	for _, hr := range results {
		status := "ok"
		if len(hr.Violations) > 0 {
			status = "VIOLATION"
		} else if len(hr.Incomplete) > 0 || len(hr.Unsupported) > 0 {
			status = "INCOMPLETE"
		}
		fmt.Fprintf(os.Stderr, "%-40s %-10s paths=%d oblig=%d/%d (struct %d) queries=%d panics=%d t=%.1fs\n", hr.Name, status, hr.Paths, hr.Discharged, hr.Obligations, hr.Structural, hr.Queries, len(hr.Panics), hr.WallS)
		for _, v := range hr.Violations {
			fmt.Fprintf(os.Stderr, "    violation: %s %s @ %s [%s]\n", v.Kind, v.Msg, v.Site, v.Status)
		}
		for _, s := range hr.Incomplete {
			fmt.Fprintf(os.Stderr, "    incomplete: %s\n", s)
		}
		for _, s := range hr.Unsupported {
			fmt.Fprintf(os.Stderr, "    unsupported: %s\n", s)
		}
	}
}

func mergeResult(dst, src *HarnessResult, inc, uns, fns map[string]bool) {
	dst.Completed += src.Completed
	dst.Steps += src.Steps
	dst.Obligations += src.Obligations
	dst.Discharged += src.Discharged
	dst.Structural += src.Structural
	dst.Queries += src.Queries
	dst.UnknownQ += src.UnknownQ
	dst.FallbackQ += src.FallbackQ
	dst.IntQ += src.IntQ
	dst.InfeasibleEnd += src.InfeasibleEnd
	dst.DistinctQ += src.DistinctQ
	for k, v := range src.Reached {
		dst.Reached[k] += v
	}
	for k, v := range src.Panics {
		dst.Panics[k] += v
	}
	for _, v := range src.Violations {
		dup := false
		for _, o := range dst.Violations {
			if o.Kind == v.Kind && o.Site == v.Site && o.Msg == v.Msg {
				dup = true
			}
		}
		if !dup {
			dst.Violations = append(dst.Violations, v)
		}
	}
	for _, s := range src.Incomplete {
		inc[s] = true
	}
	for _, s := range src.Unsupported {
		uns[s] = true
	}
	for _, s := range src.Functions {
		fns[s] = true
	}
	if len(dst.Samples) < 4 {
		dst.Samples = append(dst.Samples, src.Samples...)
		if len(dst.Samples) > 4 {
			dst.Samples = dst.Samples[:4]
		}
	}
	if len(dst.Events) < 50 {
		dst.Events = append(dst.Events, src.Events...)
	}
	if len(src.Nondet) > len(dst.Nondet) {
		dst.Nondet = src.Nondet
	}
}

func fatal(f string, a ...interface{}) {
	fmt.Fprintf(os.Stderr, "ERROR "+f+"\n", a...)
	os.Exit(2)
}
