package main

// 256-bit lifting of consensus.Work arithmetic (param work_lift=1): the limb
// loops of add/sub/Cmp become single wide operations; mul64/div64 by a constant
// are exact, by a symbolic operand they are uninterpreted (product/quotient
// unknown, overflow of mul64 nondeterministic, quotient <= dividend). The limb
// code itself is checked against its 256-bit meaning in VH_C13_WorkAddSubCmp.

import "math/big"

func work256(x *Exec, v Value) *Term {
	a := v.(Agg)
	ts := make([]*Term, len(a))
	for i, c := range a {
		ts[i] = c.(*Term)
	}
	return x.ts.Concat(ts...)
}

func workAgg(x *Exec, t *Term) Agg {
	out := make(Agg, 32)
	for i := 0; i < 32; i++ {
		out[i] = x.ts.Extract(t, 255-8*i, 248-8*i)
	}
	return out
}

func init() {
	const T = "(go.sia.tech/core/consensus.Work)."
	lift := func(name string, f intrinsic) {
		intrinsics[T+name] = func(x *Exec, fv FuncV, a []Value) Value {
			if x.cfg.Params["work_lift"] != 1 {
				return x.callBody(fv, a)
			}
			return f(x, fv, a)
		}
	}
	lift("add", func(x *Exec, fv FuncV, a []Value) Value {
		ts := x.ts
		s := ts.Add(ts.ZExt(work256(x, a[0]), 257), ts.ZExt(work256(x, a[1]), 257))
		if x.branch(ts.Eq(ts.Extract(s, 256, 256), ts.ConstU(1, 1))) {
			x.goPanic("explicit", "Work.add: overflow")
		}
		return workAgg(x, ts.Extract(s, 255, 0))
	})
	lift("sub", func(x *Exec, fv FuncV, a []Value) Value {
		ts := x.ts
		w, v := work256(x, a[0]), work256(x, a[1])
		if x.branch(ts.ULt(w, v)) {
			x.goPanic("explicit", "Work.sub: underflow")
		}
		return workAgg(x, ts.Sub(w, v))
	})
	lift("Cmp", func(x *Exec, fv FuncV, a []Value) Value {
		ts := x.ts
		w, v := work256(x, a[0]), work256(x, a[1])
		return ts.Ite(ts.Eq(w, v), ts.ConstU(64, 0), ts.Ite(ts.ULt(w, v), ts.ConstI(64, -1), ts.ConstU(64, 1)))
	})
	lift("mul64", func(x *Exec, fv FuncV, a []Value) Value {
		ts := x.ts
		w, v := work256(x, a[0]), a[1].(*Term)
		if v.IsConst() {
			p := ts.Mul(ts.ZExt(w, 320), ts.ZExt(v, 320))
			if x.branch(ts.Not(ts.Eq(ts.Extract(p, 319, 256), ts.ConstU(64, 0)))) {
				x.goPanic("explicit", "Work.mul64: overflow")
			}
			return workAgg(x, ts.Extract(p, 255, 0))
		}
		if w.IsConst() {
			// constant x symbolic is linear: exact
			p := ts.Mul(ts.ZExt(v, 320), ts.ZExt(w, 320))
			if x.branch(ts.Not(ts.Eq(ts.Extract(p, 319, 256), ts.ConstU(64, 0)))) {
				x.goPanic("explicit", "Work.mul64: overflow")
			}
			return workAgg(x, ts.Extract(p, 255, 0))
		}
		if x.branch(ts.UF("workmulovf", 0, w, v)) {
			x.goPanic("explicit", "Work.mul64: overflow")
		}
		return workAgg(x, ts.UF("workmul", 256, w, v))
	})
	lift("div64", func(x *Exec, fv FuncV, a []Value) Value {
		ts := x.ts
		w, v := work256(x, a[0]), a[1].(*Term)
		if x.branch(ts.Eq(v, ts.ConstU(64, 0))) {
			x.goPanic("explicit", "Work.div64: division by zero")
		}
		if v.IsConst() {
			return workAgg(x, ts.UDiv(w, ts.Const(256, new(big.Int).Set(v.Val))))
		}
		q := ts.UF("workdiv", 256, w, v)
		x.addPC(ts.ULe(q, w))
		return workAgg(x, q)
	})
}

func init() {
	intrinsics["go.sia.tech/core/consensus.invTarget"] = func(x *Exec, fv FuncV, a []Value) Value {
		if x.cfg.Params["target_uf"] != 1 {
			return x.callBody(fv, a)
		}
		// floor(2^256-1 / n) as an uninterpreted function of n
		return workAgg(x, x.ts.UF("invtarget", 256, work256(x, a[0])))
	}
	intrinsics["(time.Time).Sub"] = func(x *Exec, fv FuncV, a []Value) Value {
		if x.cfg.Params["time_lift"] != 1 {
			return x.callBody(fv, a)
		}
		// wire times are whole seconds (wall == 0): the difference in
		// nanoseconds is (t.ext - u.ext) * 1e9; saturation is excluded by the
		// stated assumption |t-u| < 2^33 s (272 years)
		ts := x.ts
		t, u := a[0].(Agg), a[1].(Agg)
		d := ts.Sub(t[1].(*Term), u[1].(*Term))
		lim := ts.ConstU(64, 1<<33)
		x.addPC(ts.Or(ts.ULt(d, lim), ts.ULt(ts.Neg(d), lim)))
		return ts.Mul(d, ts.ConstU(64, 1000000000))
	}
}
