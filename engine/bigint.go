package main

// math/big.Int modelled as a non-negative bit-vector of bigW bits attached to
// the object the *big.Int points to. Concrete values fold in the term layer;
// symbolic values produce wide bvmul/bvudiv terms (solver-hard; harnesses that
// need them say so). Negative values are not representable: an operation that
// could produce one aborts the path as unsupported unless it is concrete.

import (
	"fmt"
	"math/big"
)

// model width of math/big.Int values; param big_w lowers it for harnesses whose
// values are known to be narrow (keeps queries inside the integer rendering)
var bigW = 640

func (x *Exec) bigGet(v Value) *Term {
	p := v.(Ptr)
	if p.Obj == nil {
		x.goPanic("nil-deref", "nil *big.Int")
	}
	if t, ok := x.bigVals[p.Obj]; ok {
		return t
	}
	return x.ts.ConstU(bigW, 0)
}

func (x *Exec) bigSet(v Value, t *Term) Value {
	p := v.(Ptr)
	if p.Obj == nil {
		x.goPanic("nil-deref", "nil *big.Int")
	}
	if x.bigVals == nil {
		x.bigVals = map[*Object]*Term{}
	}
	x.bigVals[p.Obj] = t
	return v
}

func (x *Exec) bigNew(t *Term) Value {
	o := x.newObject(8, "big.Int")
	for i := range o.Cells {
		o.Cells[i] = x.ts.ConstU(64, 0)
	}
	return x.bigSet(Ptr{Obj: o}, t)
}

func init() {
	bi := func(name string, f intrinsic) { intrinsics["(*math/big.Int)."+name] = f }
	intrinsics["math/big.NewInt"] = func(x *Exec, fv FuncV, a []Value) Value {
		t := a[0].(*Term)
		if !t.IsConst() {
			if x.branch(x.ts.SLt(t, x.ts.ConstU(64, 0))) {
				x.abort("unsupported", "big.NewInt of negative symbolic value")
			}
		} else if toSigned(t.Val, 64).Sign() < 0 {
			x.abort("unsupported", "big.NewInt of negative value")
		}
		return x.bigNew(x.ts.ZExt(t, bigW))
	}
	intrinsics["go.sia.tech/core/types.expToUnit"] = func(x *Exec, fv FuncV, a []Value) Value { return Ptr{} }
	bi("SetBytes", func(x *Exec, fv FuncV, a []Value) Value {
		b := x.sliceBytes(x.sl(a[1]))
		if len(b) == 0 {
			return x.bigSet(a[0], x.ts.ConstU(bigW, 0))
		}
		if len(b)*8 > bigW {
			x.abort("unsupported", "big.Int.SetBytes too long")
		}
		return x.bigSet(a[0], x.ts.ZExt(x.ts.Concat(b...), bigW))
	})
	bi("SetUint64", func(x *Exec, fv FuncV, a []Value) Value {
		return x.bigSet(a[0], x.ts.ZExt(a[1].(*Term), bigW))
	})
	bi("SetInt64", func(x *Exec, fv FuncV, a []Value) Value {
		t := a[1].(*Term)
		if x.branch(x.ts.SLt(t, x.ts.ConstU(64, 0))) {
			x.abort("unsupported", "big.Int.SetInt64 negative")
		}
		return x.bigSet(a[0], x.ts.ZExt(t, bigW))
	})
	bi("Set", func(x *Exec, fv FuncV, a []Value) Value { return x.bigSet(a[0], x.bigGet(a[1])) })
	bi("Add", func(x *Exec, fv FuncV, a []Value) Value {
		return x.bigSet(a[0], x.ts.Add(x.bigGet(a[1]), x.bigGet(a[2])))
	})
	bi("Sub", func(x *Exec, fv FuncV, a []Value) Value {
		p, q := x.bigGet(a[1]), x.bigGet(a[2])
		if x.branch(x.ts.ULt(p, q)) {
			x.abort("unsupported", "big.Int.Sub would be negative")
		}
		return x.bigSet(a[0], x.ts.Sub(p, q))
	})
	bi("Mul", func(x *Exec, fv FuncV, a []Value) Value {
		return x.bigSet(a[0], x.ts.Mul(x.bigGet(a[1]), x.bigGet(a[2])))
	})
	div := func(x *Exec, fv FuncV, a []Value) Value {
		p, q := x.bigGet(a[1]), x.bigGet(a[2])
		if x.branch(x.ts.Eq(q, x.ts.ConstU(bigW, 0))) {
			x.goPanic("div-zero", "big.Int division by zero")
		}
		return x.bigSet(a[0], x.ts.UDiv(p, q))
	}
	mod := func(x *Exec, fv FuncV, a []Value) Value {
		p, q := x.bigGet(a[1]), x.bigGet(a[2])
		if x.branch(x.ts.Eq(q, x.ts.ConstU(bigW, 0))) {
			x.goPanic("div-zero", "big.Int division by zero")
		}
		return x.bigSet(a[0], x.ts.URem(p, q))
	}
	bi("Div", div)
	bi("Quo", div)
	bi("Mod", mod)
	bi("Rem", mod)
	bi("Lsh", func(x *Exec, fv FuncV, a []Value) Value {
		n := a[2].(*Term)
		return x.bigSet(a[0], x.ts.Shl(x.bigGet(a[1]), x.ts.ZExt(n, bigW)))
	})
	bi("Rsh", func(x *Exec, fv FuncV, a []Value) Value {
		n := a[2].(*Term)
		return x.bigSet(a[0], x.ts.LShr(x.bigGet(a[1]), x.ts.ZExt(n, bigW)))
	})
	bi("Cmp", func(x *Exec, fv FuncV, a []Value) Value {
		ts := x.ts
		p, q := x.bigGet(a[0]), x.bigGet(a[1])
		return ts.Ite(ts.Eq(p, q), ts.ConstU(64, 0), ts.Ite(ts.ULt(p, q), ts.ConstI(64, -1), ts.ConstU(64, 1)))
	})
	bi("Sign", func(x *Exec, fv FuncV, a []Value) Value {
		ts := x.ts
		return ts.Ite(ts.Eq(x.bigGet(a[0]), ts.ConstU(bigW, 0)), ts.ConstU(64, 0), ts.ConstU(64, 1))
	})
	bi("BitLen", func(x *Exec, fv FuncV, a []Value) Value { return x.bitLen(x.bigGet(a[0])) })
	bi("Uint64", func(x *Exec, fv FuncV, a []Value) Value { return x.ts.Extract(x.bigGet(a[0]), 63, 0) })
	bi("Int64", func(x *Exec, fv FuncV, a []Value) Value { return x.ts.Extract(x.bigGet(a[0]), 63, 0) })
	bi("IsUint64", func(x *Exec, fv FuncV, a []Value) Value {
		return x.ts.Eq(x.ts.Extract(x.bigGet(a[0]), bigW-1, 64), x.ts.ConstU(bigW-64, 0))
	})
	bi("IsInt64", func(x *Exec, fv FuncV, a []Value) Value {
		return x.ts.Eq(x.ts.Extract(x.bigGet(a[0]), bigW-1, 63), x.ts.ConstU(bigW-63, 0))
	})
	bi("FillBytes", func(x *Exec, fv FuncV, a []Value) Value {
		s := x.sl(a[1])
		v := x.bigGet(a[0])
		n := s.Len
		if n*8 < bigW {
			if x.branch(x.ts.Not(x.ts.Eq(x.ts.Extract(v, bigW-1, n*8), x.ts.ConstU(bigW-n*8, 0)))) {
				x.goPanic("fillbytes", "math/big: buffer too small to fit value")
			}
		}
		for i := 0; i < n; i++ {
			hi := 8*(n-i) - 1
			if hi >= bigW {
				s.Obj.Cells[s.Off+i] = x.ts.ConstU(8, 0)
			} else {
				s.Obj.Cells[s.Off+i] = x.ts.Extract(v, hi, hi-7)
			}
		}
		return s
	})
	bi("Bytes", func(x *Exec, fv FuncV, a []Value) Value {
		v := x.bigGet(a[0])
		if !v.IsConst() {
			x.abort("unsupported", "big.Int.Bytes of symbolic value")
		}
		bs := v.Val.Bytes()
		out := make([]*Term, len(bs))
		for i, b := range bs {
			out[i] = x.ts.ConstU(8, uint64(b))
		}
		return x.bytesToSlice(out, "big.Bytes")
	})
	bi("String", func(x *Exec, fv FuncV, a []Value) Value {
		v := x.bigGet(a[0])
		if v.IsConst() {
			return StrV{S: v.Val.String()}
		}
		return StrV{S: "<big.Int>"}
	})
	bi("Exp", func(x *Exec, fv FuncV, a []Value) Value {
		b, e := x.bigGet(a[1]), x.bigGet(a[2])
		if !b.IsConst() || !e.IsConst() || a[3].(Ptr).Obj != nil {
			x.abort("unsupported", "big.Int.Exp symbolic")
		}
		r := new(big.Int).Exp(b.Val, e.Val, nil)
		if r.BitLen() > bigW {
			x.abort("unsupported", "big.Int.Exp overflow of model width")
		}
		return x.bigSet(a[0], x.ts.Const(bigW, r))
	})
	bi("SetString", func(x *Exec, fv FuncV, a []Value) Value {
		s, ok := a[1].(StrV)
		if !ok || s.Sym != nil {
			x.abort("unsupported", "big.Int.SetString symbolic")
		}
		r, ok2 := new(big.Int).SetString(s.S, int(a[2].(*Term).Val.Int64()))
		if !ok2 || r.Sign() < 0 || r.BitLen() > bigW {
			x.abort("unsupported", fmt.Sprintf("big.Int.SetString(%q)", s.S))
		}
		return Tuple{x.bigSet(a[0], x.ts.Const(bigW, r)), x.ts.True}
	})
}
