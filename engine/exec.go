package main

import (
	"fmt"
	"os"
	"runtime"
	"time"
	"go/constant"
	"go/token"
	"go/types"
	"math/big"
	"strings"

	"golang.org/x/tools/go/ssa"
)

type Config struct {
	MaxPaths    int
	MaxLoop     int // iterations per loop head per frame
	MaxDepth    int
	MaxLen      int // bound for case-split symbolic lengths
	MaxSteps    int64
	TimeoutMs   int
	Params      map[string]int
	FallbackMs  int
	NoPanic     bool // a Go panic on a feasible path is a violation
	Verbose     bool
	TrackWrites bool
}

type Event struct {
	Kind string `json:"kind"`
	Msg  string `json:"msg"`
}

type frame struct {
	fn      *ssa.Function
	env     map[ssa.Value]Value
	defers  []func()
	block   *ssa.BasicBlock
	prev    *ssa.BasicBlock
	instr   ssa.Instruction
	visits  map[*ssa.BasicBlock]int
	results Value
}

// control-flow signals (Go panics inside the engine)
type goPanicSig struct {
	Kind string
	Msg  string
	Site string
}
type abortSig struct {
	Kind string // infeasible | unsupported | limit | assume-false
	Msg  string
}

type Violation struct {
	Harness string            `json:"harness"`
	Kind    string            `json:"kind"` // assert | panic
	Msg     string            `json:"msg"`
	Site    string            `json:"site"`
	Model   map[string]string `json:"model"`
	Path    []int             `json:"path"`
	Status  string            `json:"status"` // sat | unknown
}

type HarnessResult struct {
	Name          string         `json:"name"`
	Paths         int            `json:"paths"`
	Completed     int            `json:"completed_paths"`
	Steps         int64          `json:"ssa_instructions"`
	Obligations   int            `json:"obligations"`
	Discharged    int            `json:"discharged"`
	Structural    int            `json:"discharged_structurally"`
	Queries       int            `json:"solver_queries"`
	SolverTimeS   float64        `json:"solver_time_s"`
	Reached       map[string]int `json:"reach_tags"`
	Violations    []Violation    `json:"violations"`
	Incomplete    []string       `json:"incomplete"`
	Unsupported   []string       `json:"unsupported"`
	Panics        map[string]int `json:"panic_paths"`
	Functions     []string       `json:"functions_encoded"`
	Samples       []string       `json:"samples"`
	WallS         float64        `json:"wall_s"`
	Events        []Event        `json:"events,omitempty"`
	DistinctQ     int            `json:"distinct_queries"`
	Nondet        []string       `json:"nondet_inputs"`
	UnknownQ      int            `json:"unknown_queries"`
	FallbackQ     int            `json:"fallback_queries"`
	IntQ          int            `json:"int_mode_queries"`
	InfeasibleEnd int            `json:"infeasible_paths"`
}

type Exec struct {
	prog        *ssa.Program
	ts          *TermStore
	sol         *Solver
	cfg         Config
	layoutCache map[types.Type]int
	nextObj     int
	nextMap     int
	globals     map[*ssa.Global]*Object
	frames      []*frame
	pc          []*Term
	pcSet       map[int]bool
	prefix      []int
	pos         int
	decisions   []int
	work        [][]int
	steps       int64
	trackWrites bool
	res         *HarnessResult
	nondet      map[string]*Term
	nondetOrd   []string
	fnSeen      map[string]bool
	qseen       map[string]bool
	initDone    map[*ssa.Package]bool
	hashAx      map[string]bool
	sigApps     []*Term
	harness     string
	pathUnknown bool
	freshCtr    int
	siteCtr     map[string]int
	bigVals     map[*Object]*Term
	shapers     []shaper
	skipIntr    map[string]bool
	weightCtr   int
	dumpCtr     int
	spCtr       int
	writeEvents int
	pcSyms      []map[int]bool
	symCache    map[int]map[int]bool
	ufIdx       map[string]int
	lazyCount   int
	pcUnchecked bool
}

func (x *Exec) where() string {
	if len(x.frames) == 0 {
		return "?"
	}
	f := x.frames[len(x.frames)-1]
	pos := token.NoPos
	if f.instr != nil {
		pos = f.instr.Pos()
	}
	if pos == token.NoPos {
		// walk up for a position
		for i := len(x.frames) - 1; i >= 0 && pos == token.NoPos; i-- {
			if x.frames[i].instr != nil {
				pos = x.frames[i].instr.Pos()
			}
		}
	}
	p := x.prog.Fset.Position(pos)
	return fmt.Sprintf("%s (%s:%d)", f.fn.String(), shortFile(p.Filename), p.Line)
}

func shortFile(f string) string {
	f = strings.TrimPrefix(f, "/repo/")
	if i := strings.Index(f, "/src/"); i >= 0 && strings.Contains(f, "go1.") {
		return f[i+5:]
	}
	return f
}

func (x *Exec) stack() string {
	var sb strings.Builder
	for i := len(x.frames) - 1; i >= 0 && i >= len(x.frames)-8; i-- {
		f := x.frames[i]
		pos := token.NoPos
		if f.instr != nil {
			pos = f.instr.Pos()
		}
		p := x.prog.Fset.Position(pos)
		fmt.Fprintf(&sb, "%s:%d<", f.fn.Name(), p.Line)
	}
	return sb.String()
}

func (x *Exec) goPanic(kind, msg string) {
	panic(goPanicSig{Kind: kind, Msg: msg, Site: x.where() + " <- " + x.stack()})
}

func (x *Exec) abort(kind, msg string) {
	if kind == "unsupported" {
		msg = msg + " @ " + x.where() + " [" + x.stack() + "]"
	}
	panic(abortSig{Kind: kind, Msg: msg})
}

func (x *Exec) event(kind, msg string) {
	x.res.Events = append(x.res.Events, Event{kind, msg})
}

// ---- path condition / forking ----

func (x *Exec) addPC(c *Term) {
	if c.IsTrue() {
		return
	}
	if x.pcSet[c.ID] {
		return
	}
	x.pc = append(x.pc, c)
	x.pcSet[c.ID] = true
	if c.Op == OpAnd {
		for _, a := range c.Args {
			x.pcSet[a.ID] = true
		}
	}
	// the conjunct is only defined in the solver (path scope); queries assert
	// the slice of the path condition that is relevant to them
	x.sol.DefineOnly(c)
	x.pcSyms = append(x.pcSyms, x.symsOf(c))
}

// known reports whether c is syntactically decided by the path condition.
func (x *Exec) known(c *Term) (val, ok bool) {
	if c.IsConst() {
		return c.IsTrue(), true
	}
	if x.pcSet[c.ID] {
		return true, true
	}
	n := x.ts.Not(c)
	if x.pcSet[n.ID] {
		return false, true
	}
	return false, false
}

func (x *Exec) check(extra ...*Term) Result {
	sl := x.pcSlice(extra)
	if x.cfg.Params["int_mode"] == 1 {
		// integer rendering first: decides sum/overflow queries quickly
		all := append(append([]*Term{}, sl...), extra...)
		itmo := 10000
		if v := x.cfg.Params["int_timeout_ms"]; v > 0 {
			itmo = v
		}
		r, why := x.sol.CheckInt(all, itmo)
		if r != Unknown {
			x.res.Queries++
			x.res.IntQ++
			return r
		}
		if x.cfg.Verbose {
			fmt.Fprintf(os.Stderr, "int-mode not applicable: %s at %s\n", why, x.where())
		}
	}
	x.sol.Push()
	for _, c := range sl {
		x.sol.Assert(c)
	}
	for _, e := range extra {
		x.sol.Assert(e)
	}
	t0 := time.Now()
	r := x.sol.Check()
	x.res.Queries++
	if r == Unknown && x.cfg.FallbackMs > 0 {
		r, _, _ = x.sol.Fallback(x.cfg.FallbackMs, nil)
		x.res.FallbackQ++
	}
	if d := time.Since(t0); x.cfg.Verbose && d > 2*time.Second {
		fmt.Fprintf(os.Stderr, "slow query %.1fs -> %s at %s\n", d.Seconds(), r, x.where())
		if dir := os.Getenv("SYMGO_DUMPSLOW"); dir != "" {
			x.dumpCtr++
			os.WriteFile(fmt.Sprintf("%s/slow-%d-%d.smt2", dir, os.Getpid(), x.dumpCtr), []byte(x.sol.Script()+"(check-sat)\n"), 0o644)
		}
	}
	x.sol.Pop()
	if r == Unknown {
		x.res.UnknownQ++
	}
	return r
}

// symsOf returns the symbols (variables and uninterpreted function names) a
// term depends on; cached per term.
func (x *Exec) symsOf(t *Term) map[int]bool {
	if s, ok := x.symCache[t.ID]; ok {
		return s
	}
	out := map[int]bool{}
	seen := map[int]bool{}
	var rec func(u *Term)
	rec = func(u *Term) {
		if seen[u.ID] {
			return
		}
		seen[u.ID] = true
		switch u.Op {
		case OpVar:
			out[u.ID] = true
		case OpUF:
			// an application is related to other constraints through the
			// variables of its arguments (congruence needs equal arguments);
			// applications to constants have no variables and get their own symbol
			allConst := true
			for _, a := range u.Args {
				if !a.IsConst() {
					allConst = false
				}
			}
			if allConst {
				out[-1-u.ID] = true
			}
		}
		for _, a := range u.Args {
			rec(a)
		}
	}
	rec(t)
	if x.symCache == nil {
		x.symCache = map[int]map[int]bool{}
	}
	x.symCache[t.ID] = out
	return out
}

func (x *Exec) ufIndex(name string) int {
	// hash family members share one symbol so that injectivity/disjointness
	// reasoning sees all related applications
	if f, ok := injFamily(name); ok {
		name = f
	}
	if i, ok := x.ufIdx[name]; ok {
		return i
	}
	if x.ufIdx == nil {
		x.ufIdx = map[string]int{}
	}
	x.ufIdx[name] = len(x.ufIdx)
	return x.ufIdx[name]
}

// slice returns the conjuncts of the path condition that share symbols
// (transitively) with the extra terms; all of them when extra is empty.
// Dropping the others is sound for satisfiability because the path condition
// is kept satisfiable and the dropped part shares no symbol with the rest.
func (x *Exec) pcSlice(extra []*Term) []*Term {
	if len(extra) == 0 || x.cfg.Params["noslice"] == 1 {
		return x.pc
	}
	syms := map[int]bool{}
	for _, e := range extra {
		for s := range x.symsOf(e) {
			syms[s] = true
		}
	}
	in := make([]bool, len(x.pc))
	for changed := true; changed; {
		changed = false
		for i, cs := range x.pcSyms {
			if in[i] {
				continue
			}
			hit := false
			for s := range cs {
				if syms[s] {
					hit = true
					break
				}
			}
			if hit {
				in[i] = true
				changed = true
				for s := range cs {
					syms[s] = true
				}
			}
		}
	}
	var out []*Term
	for i, c := range x.pc {
		if in[i] {
			out = append(out, c)
		}
	}
	return out
}

// fork chooses among mutually exclusive alternatives; returns chosen index.
func (x *Exec) fork(conds []*Term) int {
	// constant shortcuts
	var live []int
	for i, c := range conds {
		if v, ok := x.known(c); ok {
			if v {
				x.addPC(c)
				return i
			}
			continue
		}
		live = append(live, i)
	}
	if len(live) == 0 {
		x.abort("infeasible", "no feasible alternative")
	}
	if x.pos < len(x.prefix) {
		d := x.prefix[x.pos]
		x.pos++
		x.decisions = append(x.decisions, d)
		x.addPC(conds[d])
		return d
	}
	var feas []int
	lazyK := x.cfg.Params["lazy_fork"]
	if lazyK > 0 {
		// lazy forking: take every syntactically live alternative without
		// asking the solver; the path condition is checked for satisfiability
		// every lazyK new decisions, at assertions, at panics and at Reach.
		x.lazyCount++
		feas = live
		if x.lazyCount%lazyK == 0 {
			feas = nil
			for _, i := range live {
				if r := x.check(conds[i]); r != Unsat {
					if r == Unknown {
						x.pathUnknown = true
					}
					feas = append(feas, i)
				}
			}
		} else {
			x.pcUnchecked = true
		}
	} else {
		for k, i := range live {
			if k == len(live)-1 && len(feas) == 0 && !x.pathUnknown {
				// all others infeasible => this one must be feasible (PC is sat)
				feas = append(feas, i)
				break
			}
			r := x.check(conds[i])
			if r != Unsat {
				if r == Unknown {
					x.pathUnknown = true
				}
				feas = append(feas, i)
			}
		}
	}
	if len(feas) == 0 {
		x.abort("infeasible", "no feasible alternative (solver)")
	}
	for _, i := range feas[1:] {
		alt := append(append([]int{}, x.decisions...), i)
		x.work = append(x.work, alt)
	}
	d := feas[0]
	x.decisions = append(x.decisions, d)
	x.pos = len(x.decisions)
	x.prefix = x.decisions
	x.addPC(conds[d])
	return d
}

func (x *Exec) branch(c *Term) bool {
	if v, ok := x.known(c); ok {
		return v
	}
	return x.fork([]*Term{c, x.ts.Not(c)}) == 0
}

// concretize forks over the possible values of t in [0,n).
func (x *Exec) concretize(t *Term, n int) int {
	if t.IsConst() {
		return int(t.Val.Int64())
	}
	conds := make([]*Term, n)
	for i := 0; i < n; i++ {
		conds[i] = x.ts.Eq(t, x.ts.ConstU(t.W, uint64(i)))
	}
	return x.fork(conds)
}

// ---- nondeterministic inputs ----

func (x *Exec) fresh(name string, w int) *Term {
	if t, ok := x.nondet[name]; ok {
		if t.W != w {
			x.abort("unsupported", "nondet name reused with different width: "+name)
		}
		return t
	}
	t := x.ts.Var(name, w)
	x.nondet[name] = t
	x.nondetOrd = append(x.nondetOrd, name)
	return t
}

func (x *Exec) freshAuto(prefix string, w int) *Term {
	x.freshCtr++
	return x.fresh(fmt.Sprintf("%s#%d", prefix, x.freshCtr), w)
}

// ---- constants ----

func (x *Exec) constValue(c *ssa.Const) Value {
	t := c.Type()
	if c.Value == nil {
		return x.zero(t)
	}
	switch u := t.Underlying().(type) {
	case *types.Basic:
		if w, _, ok := intWidth(u); ok {
			v := constant.ToInt(c.Value)
			bi, ok2 := constant.Val(v).(*big.Int)
			if !ok2 {
				if i64, ok3 := constant.Val(v).(int64); ok3 {
					bi = big.NewInt(i64)
				} else {
					panic(fmt.Sprintf("const int %v", c))
				}
			}
			return x.ts.Const(w, bi)
		}
		switch u.Kind() {
		case types.Bool, types.UntypedBool:
			return x.ts.Bool(constant.BoolVal(c.Value))
		case types.String, types.UntypedString:
			return StrV{S: constant.StringVal(c.Value)}
		case types.Float64, types.Float32, types.UntypedFloat:
			f, _ := constant.Float64Val(c.Value)
			return &Native{Kind: "float", Data: f}
		}
	}
	panic(fmt.Sprintf("constValue %v : %v", c, t))
}

func (x *Exec) get(f *frame, v ssa.Value) Value {
	switch v := v.(type) {
	case *ssa.Const:
		return x.constValue(v)
	case *ssa.Function:
		return FuncV{Fn: v}
	case *ssa.Builtin:
		return FuncV{Builtin: v}
	case *ssa.Global:
		return Ptr{Obj: x.global(v)}
	}
	r, ok := f.env[v]
	if !ok {
		panic(fmt.Sprintf("no value for %s (%T) in %s", v.Name(), v, f.fn))
	}
	return r
}

func (x *Exec) term(f *frame, v ssa.Value) *Term {
	r := x.get(f, v)
	t, ok := r.(*Term)
	if !ok {
		x.abort("unsupported", fmt.Sprintf("expected scalar term for %s, got %T", v.Name(), r))
	}
	return t
}

// ---- globals ----

var initWhitelist = []string{"go.sia.tech/core", "io", "bytes"}

func pkgWhitelisted(p *ssa.Package) bool {
	path := p.Pkg.Path()
	for _, w := range initWhitelist {
		if path == w || strings.HasPrefix(path, w+"/") {
			return true
		}
	}
	return false
}

func (x *Exec) global(g *ssa.Global) *Object {
	if o, ok := x.globals[g]; ok {
		return o
	}
	et := g.Type().(*types.Pointer).Elem()
	o := x.newObject(x.ncells(et), "global:"+g.String())
	copy(o.Cells, x.cellsOf(x.zero(et), et))
	x.globals[g] = o
	if g.Pkg != nil {
		if pkgWhitelisted(g.Pkg) {
			if !x.initDone[g.Pkg] {
				x.runInit(g.Pkg)
			}
		} else if types.Identical(et, types.Universe.Lookup("error").Type()) {
			// opaque sentinel error
			o.Cells[0] = x.opaqueError("sentinel:" + g.String())
		}
	}
	return o
}

func (x *Exec) runInit(p *ssa.Package) {
	if x.initDone[p] {
		return
	}
	x.initDone[p] = true
	initFn := p.Func("init")
	if initFn == nil {
		return
	}
	saved := x.trackWrites
	x.trackWrites = false
	x.call(FuncV{Fn: initFn}, nil, nil)
	x.trackWrites = saved
}

// ---- calling ----

func (x *Exec) call(fv FuncV, args []Value, site ssa.Instruction) Value {
	if fv.Builtin != nil {
		x.abort("unsupported", "indirect builtin call "+fv.Builtin.Name())
	}
	fn := fv.Fn
	if fn == nil {
		x.goPanic("nil-func", "call of nil function")
	}
	name := fn.String()
	if fn.Synthetic == "package initializer" {
		if !pkgWhitelisted(fn.Pkg) {
			x.initDone[fn.Pkg] = true
			return nil
		}
		if x.initDone[fn.Pkg] && len(x.frames) > 0 && x.frames[len(x.frames)-1].fn.Synthetic == "package initializer" {
			// nested call from another init: guard variable handles it, continue
		}
		x.initDone[fn.Pkg] = true
	}
	if in, ok := intrinsics[name]; ok && !x.skipIntr[name] {
		return in(x, fv, args)
	}
	if o := fn.Origin(); o != nil {
		if in, ok := intrinsics[o.String()]; ok {
			return in(x, fv, args)
		}
	}
	if fn.Blocks == nil {
		x.abort("unsupported", "external function without body: "+name)
	}
	if len(x.frames) >= x.cfg.MaxDepth {
		x.abort("limit", "call depth exceeded at "+name)
	}
	if !x.fnSeen[name] {
		x.fnSeen[name] = true
	}
	f := &frame{fn: fn, env: make(map[ssa.Value]Value, 16), visits: map[*ssa.BasicBlock]int{}}
	for i, p := range fn.Params {
		f.env[p] = args[i]
	}
	for i, fvv := range fn.FreeVars {
		f.env[fvv] = fv.Binds[i]
	}
	x.frames = append(x.frames, f)
	depth := len(x.frames)
	defer func() { x.frames = x.frames[:depth-1] }()
	x.run(f)
	return f.results
}

func (x *Exec) run(f *frame) {
	f.block = f.fn.Blocks[0]
	for {
		f.visits[f.block]++
		if f.visits[f.block] > x.cfg.MaxLoop {
			x.abort("limit", fmt.Sprintf("loop bound %d exceeded in %s", x.cfg.MaxLoop, f.fn))
		}
		var next *ssa.BasicBlock
		// phis first (parallel assignment)
		i := 0
		if f.prev != nil {
			var phiVals []Value
			var phis []*ssa.Phi
			for ; i < len(f.block.Instrs); i++ {
				phi, ok := f.block.Instrs[i].(*ssa.Phi)
				if !ok {
					break
				}
				for k, pred := range f.block.Preds {
					if pred == f.prev {
						phiVals = append(phiVals, x.get(f, phi.Edges[k]))
						break
					}
				}
				phis = append(phis, phi)
			}
			for k, phi := range phis {
				f.env[phi] = phiVals[k]
			}
		}
		for ; i < len(f.block.Instrs); i++ {
			ins := f.block.Instrs[i]
			f.instr = ins
			x.steps++
			if x.steps > x.cfg.MaxSteps {
				x.abort("limit", "step budget exceeded")
			}
			switch ins := ins.(type) {
			case *ssa.Jump:
				next = f.block.Succs[0]
			case *ssa.If:
				c := x.term(f, ins.Cond)
				if x.branch(c) {
					next = f.block.Succs[0]
				} else {
					next = f.block.Succs[1]
				}
			case *ssa.Return:
				switch len(ins.Results) {
				case 0:
					f.results = nil
				case 1:
					f.results = x.get(f, ins.Results[0])
				default:
					t := make(Tuple, len(ins.Results))
					for k, r := range ins.Results {
						t[k] = x.get(f, r)
					}
					f.results = t
				}
				return
			case *ssa.Panic:
				v := x.get(f, ins.X)
				x.goPanic("explicit", x.panicString(v))
			default:
				x.exec(f, ins)
			}
		}
		if next == nil {
			panic("block without terminator")
		}
		f.prev = f.block
		f.block = next
	}
}

func (x *Exec) panicString(v Value) string {
	if i, ok := v.(Iface); ok {
		switch s := i.V.(type) {
		case StrV:
			if s.Sym == nil {
				return s.S
			}
			return "<symbolic string>"
		}
		if i.T != nil {
			return fmt.Sprintf("<%v>", i.T)
		}
	}
	return "<panic value>"
}

func (x *Exec) exec(f *frame, ins ssa.Instruction) {
	switch ins := ins.(type) {
	case *ssa.DebugRef:
	case *ssa.Alloc:
		et := ins.Type().(*types.Pointer).Elem()
		o := x.newObject(x.ncells(et), "alloc:"+ins.Comment+"@"+f.fn.Name())
		copy(o.Cells, x.cellsOf(x.zero(et), et))
		f.env[ins] = Ptr{Obj: o}
	case *ssa.UnOp:
		f.env[ins] = x.unop(f, ins)
	case *ssa.BinOp:
		f.env[ins] = x.binop(ins.Op, x.get(f, ins.X), x.get(f, ins.Y), ins.X.Type(), ins.Y.Type())
	case *ssa.Store:
		p := x.get(f, ins.Addr).(Ptr)
		x.store(p, ins.Val.Type(), x.get(f, ins.Val))
	case *ssa.FieldAddr:
		p := x.get(f, ins.X).(Ptr)
		if p.Obj == nil {
			x.goPanic("nil-deref", "nil pointer dereference (field address)")
		}
		st := ins.X.Type().Underlying().(*types.Pointer).Elem().Underlying().(*types.Struct)
		f.env[ins] = Ptr{Obj: p.Obj, Off: p.Off + x.fieldOff(st, ins.Field)}
	case *ssa.Field:
		a := x.get(f, ins.X).(Agg)
		st := ins.X.Type().Underlying().(*types.Struct)
		off := x.fieldOff(st, ins.Field)
		ft := st.Field(ins.Field).Type()
		f.env[ins] = x.fromCells(a[off:off+x.ncells(ft)], ft)
	case *ssa.IndexAddr:
		f.env[ins] = x.indexAddr(f, ins)
	case *ssa.Index:
		f.env[ins] = x.index(f, ins)
	case *ssa.Lookup:
		f.env[ins] = x.lookup(f, ins)
	case *ssa.Slice:
		f.env[ins] = x.slice(f, ins)
	case *ssa.Call:
		f.env[ins] = x.callInstr(f, &ins.Call, ins)
	case *ssa.Defer:
		x.deferInstr(f, ins)
	case *ssa.RunDefers:
		for len(f.defers) > 0 {
			d := f.defers[len(f.defers)-1]
			f.defers = f.defers[:len(f.defers)-1]
			d()
		}
	case *ssa.Go:
		x.abort("unsupported", "go statement")
	case *ssa.Select, *ssa.Send, *ssa.MakeChan:
		x.abort("unsupported", "channel operation")
	case *ssa.Phi:
		// entry-block phi or after first loop iteration handled in run
		for k, pred := range f.block.Preds {
			if pred == f.prev {
				f.env[ins] = x.get(f, ins.Edges[k])
			}
		}
	case *ssa.MakeInterface:
		f.env[ins] = Iface{T: ins.X.Type(), V: x.get(f, ins.X)}
	case *ssa.ChangeInterface:
		f.env[ins] = x.get(f, ins.X)
	case *ssa.ChangeType:
		f.env[ins] = x.get(f, ins.X)
	case *ssa.Convert:
		f.env[ins] = x.convert(x.get(f, ins.X), ins.X.Type(), ins.Type())
	case *ssa.MultiConvert:
		f.env[ins] = x.convert(x.get(f, ins.X), ins.X.Type(), ins.Type())
	case *ssa.SliceToArrayPointer:
		s := x.sl(x.get(f, ins.X))
		at := ins.Type().(*types.Pointer).Elem().Underlying().(*types.Array)
		if int(at.Len()) > s.Len {
			x.goPanic("slice-to-array", "slice to array pointer: length too short")
		}
		if s.Obj == nil {
			f.env[ins] = Ptr{}
		} else {
			f.env[ins] = Ptr{Obj: s.Obj, Off: s.Off}
		}
	case *ssa.TypeAssert:
		f.env[ins] = x.typeAssert(f, ins)
	case *ssa.Extract:
		f.env[ins] = x.get(f, ins.Tuple).(Tuple)[ins.Index]
	case *ssa.MakeClosure:
		b := make([]Value, len(ins.Bindings))
		for i, bv := range ins.Bindings {
			b[i] = x.get(f, bv)
		}
		f.env[ins] = FuncV{Fn: ins.Fn.(*ssa.Function), Binds: b}
	case *ssa.MakeSlice:
		f.env[ins] = x.makeSlice(f, ins)
	case *ssa.MakeMap:
		mt := ins.Type().Underlying().(*types.Map)
		x.nextMap++
		f.env[ins] = &MapObj{ID: x.nextMap, KT: mt.Key(), VT: mt.Elem()}
	case *ssa.MapUpdate:
		m := x.get(f, ins.Map).(*MapObj)
		if m == nil {
			x.goPanic("nil-map", "assignment to entry in nil map")
		}
		x.mapSet(m, x.get(f, ins.Key), x.get(f, ins.Value))
	case *ssa.Range:
		f.env[ins] = x.rangeInit(f, ins)
	case *ssa.Next:
		f.env[ins] = x.rangeNext(f, ins)
	default:
		x.abort("unsupported", fmt.Sprintf("instruction %T", ins))
	}
}

func (x *Exec) deferInstr(f *frame, ins *ssa.Defer) {
	// evaluate now
	c := &ins.Call
	if c.IsInvoke() {
		recv := x.get(f, c.Value).(Iface)
		args := x.evalArgs(f, c.Args)
		f.defers = append(f.defers, func() { x.invoke(recv, c.Method, args) })
		return
	}
	if b, ok := c.Value.(*ssa.Builtin); ok {
		args := x.evalArgs(f, c.Args)
		f.defers = append(f.defers, func() { x.builtin(f, b, args, c.Args) })
		return
	}
	fv := x.get(f, c.Value).(FuncV)
	args := x.evalArgs(f, c.Args)
	f.defers = append(f.defers, func() { x.call(fv, args, ins) })
}

func (x *Exec) evalArgs(f *frame, as []ssa.Value) []Value {
	out := make([]Value, len(as))
	for i, a := range as {
		out[i] = x.get(f, a)
	}
	return out
}

func (x *Exec) callInstr(f *frame, c *ssa.CallCommon, site ssa.Instruction) Value {
	if c.IsInvoke() {
		recv, ok := x.get(f, c.Value).(Iface)
		if !ok {
			x.abort("unsupported", "invoke on non-interface value")
		}
		return x.invoke(recv, c.Method, x.evalArgs(f, c.Args))
	}
	if b, ok := c.Value.(*ssa.Builtin); ok {
		return x.builtin(f, b, x.evalArgs(f, c.Args), c.Args)
	}
	fv, ok := x.get(f, c.Value).(FuncV)
	if !ok {
		x.abort("unsupported", fmt.Sprintf("call of %T", x.get(f, c.Value)))
	}
	return x.call(fv, x.evalArgs(f, c.Args), site)
}

func (x *Exec) invoke(recv Iface, m *types.Func, args []Value) Value {
	if recv.T == nil {
		x.goPanic("nil-deref", "method call on nil interface: "+m.Name())
	}
	if n, ok := recv.V.(*Native); ok {
		return x.nativeInvoke(n, m.Name(), args)
	}
	fn := x.prog.LookupMethod(recv.T, m.Pkg(), m.Name())
	if fn == nil {
		x.abort("unsupported", fmt.Sprintf("method %s not found on %v", m.Name(), recv.T))
	}
	return x.call(FuncV{Fn: fn}, append([]Value{recv.V}, args...), nil)
}

// ---- unary / binary ----

func (x *Exec) unop(f *frame, ins *ssa.UnOp) Value {
	v := x.get(f, ins.X)
	switch ins.Op {
	case token.MUL:
		p, ok := v.(Ptr)
		if !ok {
			x.abort("unsupported", fmt.Sprintf("deref of %T", v))
		}
		return x.load(p, ins.Type())
	case token.NOT:
		return x.ts.Not(v.(*Term))
	case token.SUB:
		if n, ok := v.(*Native); ok && n.Kind == "float" {
			return &Native{Kind: "float", Data: -n.Data.(float64)}
		}
		return x.ts.Neg(v.(*Term))
	case token.XOR:
		return x.ts.BvNot(v.(*Term))
	case token.ARROW:
		x.abort("unsupported", "channel receive")
	}
	panic("unop")
}

func (x *Exec) binop(op token.Token, a, b Value, at, bt types.Type) Value {
	ts := x.ts
	switch av := a.(type) {
	case *Term:
		bv, ok := b.(*Term)
		if !ok {
			x.abort("unsupported", fmt.Sprintf("binop term vs %T", b))
		}
		if av.W == 0 {
			switch op {
			case token.EQL:
				return ts.Eq(av, bv)
			case token.NEQ:
				return ts.Not(ts.Eq(av, bv))
			case token.AND, token.LAND:
				return ts.And(av, bv)
			case token.OR, token.LOR:
				return ts.Or(av, bv)
			}
			panic("bool binop " + op.String())
		}
		_, signed, _ := typeIntWidth(at)
		switch op {
		case token.ADD:
			return ts.Add(av, bv)
		case token.SUB:
			return ts.Sub(av, bv)
		case token.MUL:
			return ts.Mul(av, bv)
		case token.QUO, token.REM:
			if x.branch(ts.Eq(bv, ts.ConstU(bv.W, 0))) {
				x.goPanic("div-zero", "integer divide by zero")
			}
			if signed {
				if op == token.QUO {
					return ts.SDiv(av, bv)
				}
				return ts.SRem(av, bv)
			}
			if op == token.QUO {
				return ts.UDiv(av, bv)
			}
			return ts.URem(av, bv)
		case token.AND:
			return ts.BvAnd(av, bv)
		case token.OR:
			return ts.BvOr(av, bv)
		case token.XOR:
			return ts.BvXor(av, bv)
		case token.AND_NOT:
			return ts.BvAnd(av, ts.BvNot(bv))
		case token.SHL, token.SHR:
			_, bsigned, _ := typeIntWidth(bt)
			if bsigned && !bv.IsConst() {
				if x.branch(ts.SLt(bv, ts.ConstU(bv.W, 0))) {
					x.goPanic("neg-shift", "negative shift amount")
				}
			}
			var sh *Term
			var big_ *Term // condition: shift >= width
			if bv.W > av.W {
				big_ = ts.ULe(ts.ConstU(bv.W, uint64(av.W)), bv)
				sh = ts.Extract(bv, av.W-1, 0)
			} else {
				sh = ts.ZExt(bv, av.W)
				big_ = ts.False
			}
			var r, ov *Term
			if op == token.SHL {
				r = ts.Shl(av, sh)
				ov = ts.ConstU(av.W, 0)
			} else if signed {
				r = ts.AShr(av, sh)
				ov = ts.AShr(av, ts.ConstU(av.W, uint64(av.W-1)))
			} else {
				r = ts.LShr(av, sh)
				ov = ts.ConstU(av.W, 0)
			}
			return ts.Ite(big_, ov, r)
		case token.EQL:
			return ts.Eq(av, bv)
		case token.NEQ:
			return ts.Not(ts.Eq(av, bv))
		case token.LSS:
			if signed {
				return ts.SLt(av, bv)
			}
			return ts.ULt(av, bv)
		case token.LEQ:
			if signed {
				return ts.SLe(av, bv)
			}
			return ts.ULe(av, bv)
		case token.GTR:
			if signed {
				return ts.SLt(bv, av)
			}
			return ts.ULt(bv, av)
		case token.GEQ:
			if signed {
				return ts.SLe(bv, av)
			}
			return ts.ULe(bv, av)
		}
		panic("int binop " + op.String())
	case StrV:
		bv := b.(StrV)
		switch op {
		case token.ADD:
			return x.strConcat(av, bv)
		case token.EQL:
			return x.strEq(av, bv)
		case token.NEQ:
			return ts.Not(x.strEq(av, bv))
		case token.LSS, token.LEQ, token.GTR, token.GEQ:
			if av.Sym == nil && bv.Sym == nil {
				var r bool
				switch op {
				case token.LSS:
					r = av.S < bv.S
				case token.LEQ:
					r = av.S <= bv.S
				case token.GTR:
					r = av.S > bv.S
				case token.GEQ:
					r = av.S >= bv.S
				}
				return ts.Bool(r)
			}
		}
		x.abort("unsupported", "string binop "+op.String())
	case *Native:
		if av.Kind == "float" {
			bn, ok := b.(*Native)
			if ok && bn.Kind == "float" {
				af, bf := av.Data.(float64), bn.Data.(float64)
				switch op {
				case token.ADD:
					return &Native{Kind: "float", Data: af + bf}
				case token.SUB:
					return &Native{Kind: "float", Data: af - bf}
				case token.MUL:
					return &Native{Kind: "float", Data: af * bf}
				case token.QUO:
					return &Native{Kind: "float", Data: af / bf}
				case token.LSS:
					return ts.Bool(af < bf)
				case token.LEQ:
					return ts.Bool(af <= bf)
				case token.GTR:
					return ts.Bool(af > bf)
				case token.GEQ:
					return ts.Bool(af >= bf)
				case token.EQL:
					return ts.Bool(af == bf)
				case token.NEQ:
					return ts.Bool(af != bf)
				}
			}
			x.abort("unsupported", "float op")
		}
	}
	switch op {
	case token.EQL:
		return x.valEq(a, b, at)
	case token.NEQ:
		return ts.Not(x.valEq(a, b, at))
	}
	x.abort("unsupported", fmt.Sprintf("binop %s on %T", op, a))
	return nil
}

func (x *Exec) strBytes(s StrV) []*Term {
	if s.Sym != nil {
		return s.Sym
	}
	out := make([]*Term, len(s.S))
	for i := 0; i < len(s.S); i++ {
		out[i] = x.ts.ConstU(8, uint64(s.S[i]))
	}
	return out
}

func (x *Exec) mkStr(b []*Term) StrV {
	allc := true
	for _, t := range b {
		if !t.IsConst() {
			allc = false
			break
		}
	}
	if allc {
		bs := make([]byte, len(b))
		for i, t := range b {
			bs[i] = byte(t.Val.Uint64())
		}
		return StrV{S: string(bs)}
	}
	if b == nil {
		b = []*Term{}
	}
	return StrV{Sym: b}
}

func (x *Exec) strConcat(a, b StrV) StrV {
	if a.Sym == nil && b.Sym == nil {
		return StrV{S: a.S + b.S}
	}
	return x.mkStr(append(append([]*Term{}, x.strBytes(a)...), x.strBytes(b)...))
}

func (x *Exec) strEq(a, b StrV) *Term {
	if a.Len() != b.Len() {
		return x.ts.False
	}
	if a.Sym == nil && b.Sym == nil {
		return x.ts.Bool(a.S == b.S)
	}
	return x.bytesEq(x.strBytes(a), x.strBytes(b))
}

func (x *Exec) bytesEq(a, b []*Term) *Term {
	if len(a) != len(b) {
		return x.ts.False
	}
	if len(a) == 0 {
		return x.ts.True
	}
	return x.ts.Eq(x.ts.Concat(a...), x.ts.Concat(b...))
}

// valEq computes equality of two values of static type t.
func (x *Exec) valEq(a, b Value, t types.Type) *Term {
	ts := x.ts
	switch av := a.(type) {
	case *Term:
		return ts.Eq(av, b.(*Term))
	case Ptr:
		bv, ok := b.(Ptr)
		if !ok {
			return ts.False
		}
		return ts.Bool(av.Obj == bv.Obj && (av.Obj == nil || av.Off == bv.Off))
	case StrV:
		return x.strEq(av, b.(StrV))
	case Agg:
		bv := b.(Agg)
		return x.cellsEq(av, bv)
	case Iface:
		bv := b.(Iface)
		if av.T == nil || bv.T == nil {
			return ts.Bool(av.T == nil && bv.T == nil)
		}
		if !types.Identical(av.T, bv.T) {
			return ts.False
		}
		return x.valEq(av.V, bv.V, av.T)
	case *MapObj:
		bv, _ := b.(*MapObj)
		return ts.Bool(av == bv)
	case FuncV:
		bv := b.(FuncV)
		return ts.Bool(av.Fn == nil && bv.Fn == nil && av.Builtin == nil && bv.Builtin == nil)
	case SymSliceV:
		return x.valEq(x.sl(av), b, t)
	case SliceV:
		bv := x.sl(b)
		if av.Obj == nil && bv.Obj == nil {
			return ts.True
		}
		return ts.Bool(av.Obj == nil && bv.Obj == nil)
	case *Native:
		bv, ok := b.(*Native)
		if !ok {
			return ts.False
		}
		return ts.Bool(av == bv)
	case nil:
		return ts.Bool(b == nil)
	}
	x.abort("unsupported", fmt.Sprintf("equality on %T", a))
	return nil
}

// cellsEq compares two flattened aggregates; adjacent byte cells are compared
// as one concatenation so that hashes compare as single 256-bit terms.
func (x *Exec) cellsEq(a, b []Value) *Term {
	ts := x.ts
	if len(a) != len(b) {
		panic("cellsEq length mismatch")
	}
	var conj []*Term
	var ra, rb []*Term
	flush := func() {
		if len(ra) > 0 {
			// little-endian limb pairs (Currency{Lo,Hi}) that are the two halves of
			// one wide term compare as that term
			if len(ra) == 2 && ra[0].W == 64 && ra[1].W == 64 {
				A, B := ts.Concat(ra[1], ra[0]), ts.Concat(rb[1], rb[0])
				if A.Op != OpConcat || B.Op != OpConcat {
					conj = append(conj, ts.Eq(A, B))
					ra, rb = nil, nil
					return
				}
			}
			conj = append(conj, ts.Eq(ts.Concat(ra...), ts.Concat(rb...)))
			ra, rb = nil, nil
		}
	}
	for i := range a {
		at, ok1 := a[i].(*Term)
		bt, ok2 := b[i].(*Term)
		if ok1 && ok2 && at.W > 0 && at.W == bt.W {
			ra = append(ra, at)
			rb = append(rb, bt)
			continue
		}
		flush()
		conj = append(conj, x.valEq(a[i], b[i], nil))
	}
	flush()
	return ts.And(conj...)
}

// ---- conversions ----

func (x *Exec) convert(v Value, from, to types.Type) Value {
	ts := x.ts
	fu, tu := from.Underlying(), to.Underlying()
	if fb, ok := fu.(*types.Basic); ok {
		if fw, fsigned, ok := intWidth(fb); ok {
			if tb, ok := tu.(*types.Basic); ok {
				if tw, _, ok := intWidth(tb); ok {
					t := v.(*Term)
					if tw <= fw {
						return ts.ZExt(t, tw)
					}
					if fsigned {
						return ts.SExt(t, tw)
					}
					return ts.ZExt(t, tw)
				}
				if tb.Kind() == types.String {
					// string(rune)
					t := v.(*Term)
					if t.IsConst() {
						return StrV{S: string(rune(t.Val.Int64()))}
					}
					x.abort("unsupported", "string(symbolic rune)")
				}
				if tb.Kind() == types.UnsafePointer {
					x.abort("unsupported", "uintptr to unsafe.Pointer")
				}
				if tb.Kind() == types.Float64 || tb.Kind() == types.Float32 {
					t := v.(*Term)
					if t.IsConst() {
						var fl float64
						if fsigned {
							fl = float64(toSigned(t.Val, t.W).Int64())
						} else {
							fl = float64(t.Val.Uint64())
						}
						return &Native{Kind: "float", Data: fl}
					}
					x.abort("unsupported", "symbolic int to float conversion")
				}
			}
		}
		if fb.Kind() == types.String || fb.Kind() == types.UntypedString {
			if ts_, ok := tu.(*types.Slice); ok {
				s := v.(StrV)
				if eb, ok := ts_.Elem().Underlying().(*types.Basic); ok && eb.Kind() == types.Uint8 {
					b := x.strBytes(s)
					o := x.newObject(len(b), "bytes(string)")
					for i, t := range b {
						o.Cells[i] = t
					}
					return SliceV{Obj: o, Len: len(b), Cap: len(b)}
				}
				x.abort("unsupported", "[]rune(string)")
			}
			if _, ok := tu.(*types.Basic); ok {
				return v
			}
		}
		if fb.Kind() == types.UnsafePointer {
			return v // to pointer / unsafe.Pointer
		}
		if fb.Kind() == types.Float64 || fb.Kind() == types.Float32 || fb.Kind() == types.UntypedFloat {
			if tb, ok := tu.(*types.Basic); ok {
				if tb.Kind() == types.Float64 || tb.Kind() == types.Float32 {
					return v
				}
				if tw, tsigned, ok := intWidth(tb); ok {
					fl := v.(*Native).Data.(float64)
					if tsigned {
						return ts.ConstI(tw, int64(fl))
					}
					return ts.ConstU(tw, uint64(fl))
				}
			}
		}
		if fb.Kind() == types.Bool {
			return v
		}
	}
	if fs, ok := fu.(*types.Slice); ok {
		if tb, ok := tu.(*types.Basic); ok && tb.Kind() == types.String {
			_ = fs
			s := x.sl(v)
			b := make([]*Term, s.Len)
			for i := 0; i < s.Len; i++ {
				b[i] = s.Obj.Cells[s.Off+i].(*Term)
			}
			return x.mkStr(b)
		}
		if _, ok := tu.(*types.Slice); ok {
			return v
		}
	}
	if _, ok := fu.(*types.Pointer); ok {
		return v // pointer to unsafe.Pointer or pointer
	}
	if types.Identical(fu, tu) {
		return v
	}
	x.abort("unsupported", fmt.Sprintf("convert %v -> %v", from, to))
	return nil
}

func (x *Exec) typeAssert(f *frame, ins *ssa.TypeAssert) Value {
	v, ok := x.get(f, ins.X).(Iface)
	if !ok {
		x.abort("unsupported", "type assert on non-interface")
	}
	var okk bool
	var res Value
	if it, isIface := ins.AssertedType.Underlying().(*types.Interface); isIface {
		if v.T != nil && x.implements(v, it) {
			okk = true
			res = v
		} else {
			res = Iface{}
		}
	} else {
		if v.T != nil && types.Identical(v.T, ins.AssertedType) {
			okk = true
			res = v.V
		} else {
			res = x.zero(ins.AssertedType)
		}
	}
	if ins.CommaOk {
		return Tuple{res, x.ts.Bool(okk)}
	}
	if !okk {
		x.goPanic("type-assert", fmt.Sprintf("interface conversion: %v is not %v", v.T, ins.AssertedType))
	}
	return res
}

func (x *Exec) implements(v Iface, it *types.Interface) bool {
	if n, ok := v.V.(*Native); ok {
		// natives implement whatever they are asked for among known method sets
		switch n.Kind {
		case "hasher":
			return true
		}
	}
	return types.Implements(v.T, it)
}

// ---- indexing ----

func (x *Exec) idxConcrete(idx *Term, n int, signed bool, what string) int {
	_ = x.ts
	if idx.IsConst() {
		var i int64
		if signed {
			i = toSigned(idx.Val, idx.W).Int64()
		} else {
			if !idx.Val.IsInt64() {
				x.goPanic("index", what+": index out of range")
			}
			i = idx.Val.Int64()
		}
		if i < 0 || i >= int64(n) {
			x.goPanic("index", fmt.Sprintf("%s: index out of range [%d] with length %d", what, i, n))
		}
		return int(i)
	}
	// bounds check (unsigned compare covers negative); an index type too narrow
	// to reach n is always in range
	if !x.idxInRange(idx, n) {
		x.goPanic("index", fmt.Sprintf("%s: symbolic index out of range with length %d", what, n))
	}
	if n > x.cfg.MaxLen*64 {
		x.abort("unsupported", fmt.Sprintf("symbolic index into %d elements", n))
	}
	return x.concretize(idx, n)
}

func (x *Exec) indexAddr(f *frame, ins *ssa.IndexAddr) Value {
	base := x.get(f, ins.X)
	idx := x.term(f, ins.Index)
	_, signed, _ := typeIntWidth(ins.Index.Type())
	et := ins.Type().(*types.Pointer).Elem()
	ec := x.ncells(et)
	switch b := base.(type) {
	case SymSliceV:
		idx64 := idx
		if idx.W < 64 {
			idx64 = x.ts.ZExt(idx, 64)
		}
		if !x.branch(x.ts.ULt(idx64, b.Len)) {
			x.goPanic("index", "slice: index out of range (symbolic length)")
		}
		i := x.concretize(idx, b.Cap)
		return Ptr{Obj: b.Obj, Off: b.Off + i*ec}
	case SliceV:
		i := x.idxConcrete(idx, b.Len, signed, "slice")
		return Ptr{Obj: b.Obj, Off: b.Off + i*ec}
	case Ptr:
		at := ins.X.Type().Underlying().(*types.Pointer).Elem().Underlying().(*types.Array)
		if b.Obj == nil {
			x.goPanic("nil-deref", "nil pointer dereference (array index)")
		}
		i := x.idxConcrete(idx, int(at.Len()), signed, "array")
		return Ptr{Obj: b.Obj, Off: b.Off + i*ec}
	}
	x.abort("unsupported", fmt.Sprintf("IndexAddr on %T", base))
	return nil
}

func (x *Exec) index(f *frame, ins *ssa.Index) Value {
	base := x.get(f, ins.X)
	idx := x.term(f, ins.Index)
	_, signed, _ := typeIntWidth(ins.Index.Type())
	switch b := base.(type) {
	case Agg:
		at := ins.X.Type().Underlying().(*types.Array)
		ec := x.ncells(at.Elem())
		n := int(at.Len())
		if !idx.IsConst() && ec == 1 {
			if r := x.iteRead(b, idx, n); r != nil {
				return r
			}
		}
		i := x.idxConcrete(idx, n, signed, "array value")
		return x.fromCells(b[i*ec:(i+1)*ec], at.Elem())
	case StrV:
		if !idx.IsConst() && b.Sym == nil {
			// constant table indexed by a symbolic value: ite chain over the
			// entries that differ from the most frequent one
			return x.tableRead([]byte(b.S), idx)
		}
		i := x.idxConcrete(idx, b.Len(), signed, "string")
		return x.strBytes(b)[i]
	}
	x.abort("unsupported", fmt.Sprintf("Index on %T", base))
	return nil
}

// idxInRange branches on idx < n (unsigned).
func (x *Exec) idxInRange(idx *Term, n int) bool {
	if idx.W < 63 && uint64(n) >= uint64(1)<<uint(idx.W) {
		return true
	}
	return x.branch(x.ts.ULt(idx, x.ts.ConstU(idx.W, uint64(n))))
}

// tableRead reads a constant byte table at a symbolic index.
func (x *Exec) tableRead(tab []byte, idx *Term) Value {
	ts := x.ts
	if len(tab) == 0 || !x.idxInRange(idx, len(tab)) {
		x.goPanic("index", fmt.Sprintf("string: symbolic index out of range with length %d", len(tab)))
	}
	if conds, vals, def, ok := IteChain(idx); ok {
		// index is itself a table read: compose the tables
		at := func(v *big.Int) *Term {
			if v.IsInt64() && v.Int64() < int64(len(tab)) {
				return ts.ConstU(8, uint64(tab[v.Int64()]))
			}
			return ts.ConstU(8, 0) // excluded by the bounds check above
		}
		r := at(def)
		for i := len(conds) - 1; i >= 0; i-- {
			r = ts.Ite(conds[i], at(vals[i]), r)
		}
		return r
	}
	var cnt [256]int
	best := 0
	for _, c := range tab {
		cnt[c]++
		if cnt[c] > cnt[best] {
			best = int(c)
		}
	}
	r := ts.ConstU(8, uint64(best))
	idx8 := idx
	if idx.W > 8 {
		idx8 = ts.Extract(idx, 7, 0)
	} else if idx.W < 8 {
		idx8 = ts.ZExt(idx, 8)
	}
	for i := len(tab) - 1; i >= 0; {
		if int(tab[i]) == best {
			i--
			continue
		}
		// maximal run [j..i] with tab[k]-k constant: one range test, value idx+delta
		j := i
		for j > 0 && int(tab[j-1]) != best && tab[j-1]-byte(j-1) == tab[i]-byte(i) {
			j--
		}
		if i-j >= 2 {
			in := ts.And(ts.ULe(ts.ConstU(idx.W, uint64(j)), idx), ts.ULe(idx, ts.ConstU(idx.W, uint64(i))))
			r = ts.Ite(in, ts.Add(idx8, ts.ConstU(8, uint64(tab[i]-byte(i)))), r)
			i = j - 1
			continue
		}
		r = ts.Ite(ts.Eq(idx, ts.ConstU(idx.W, uint64(i))), ts.ConstU(8, uint64(tab[i])), r)
		i--
	}
	return r
}

// iteRead builds an ite chain for a symbolic index over scalar cells.
func (x *Exec) iteRead(cells []Value, idx *Term, n int) Value {
	ts := x.ts
	for _, c := range cells[:n] {
		if _, ok := c.(*Term); !ok {
			return nil
		}
	}
	if !x.idxInRange(idx, n) {
		x.goPanic("index", fmt.Sprintf("symbolic index out of range with length %d", n))
	}
	r := cells[n-1].(*Term)
	for i := n - 2; i >= 0; i-- {
		r = ts.Ite(ts.Eq(idx, ts.ConstU(idx.W, uint64(i))), cells[i].(*Term), r)
	}
	return r
}

func (x *Exec) sliceBound(t *Term, signed bool) int {
	if !t.IsConst() {
		return -1
	}
	if signed {
		return int(toSigned(t.Val, t.W).Int64())
	}
	return int(t.Val.Int64())
}

func (x *Exec) concreteInt(f *frame, v ssa.Value, max int, what string) int {
	t := x.term(f, v)
	if t.IsConst() {
		_, signed, _ := typeIntWidth(v.Type())
		if signed {
			return int(toSigned(t.Val, t.W).Int64())
		}
		if !t.Val.IsInt64() {
			return -1 << 62
		}
		return int(t.Val.Int64())
	}
	// symbolic: must be within [0,max]
	if !x.branch(x.ts.ULe(t, x.ts.ConstU(t.W, uint64(max)))) {
		return -1
	}
	return x.concretize(t, max+1)
}

func (x *Exec) slice(f *frame, ins *ssa.Slice) Value {
	base := x.get(f, ins.X)
	var obj *Object
	var off, length, capacity, ec int
	isStr := false
	var sv StrV
	if sb, ok := base.(SymSliceV); ok {
		base = x.sl(sb)
	}
	switch b := base.(type) {
	case SliceV:
		obj, off, length, capacity = b.Obj, b.Off, b.Len, b.Cap
		ec = x.ncells(ins.X.Type().Underlying().(*types.Slice).Elem())
	case Ptr:
		at := ins.X.Type().Underlying().(*types.Pointer).Elem().Underlying().(*types.Array)
		if b.Obj == nil {
			x.goPanic("nil-deref", "slice of nil array pointer")
		}
		obj, off, length, capacity = b.Obj, b.Off, int(at.Len()), int(at.Len())
		ec = x.ncells(at.Elem())
	case StrV:
		isStr = true
		sv = b
		length = b.Len()
		capacity = length
	default:
		x.abort("unsupported", fmt.Sprintf("Slice on %T", base))
	}
	lo, hi, mx := 0, length, capacity
	if ins.Low != nil {
		lo = x.concreteInt(f, ins.Low, capacity, "slice low")
	}
	if ins.High != nil {
		hi = x.concreteInt(f, ins.High, capacity, "slice high")
	}
	if ins.Max != nil {
		mx = x.concreteInt(f, ins.Max, capacity, "slice max")
	}
	if lo < 0 || hi < lo || mx < hi || mx > capacity {
		x.goPanic("slice-bounds", fmt.Sprintf("slice bounds out of range [%d:%d:%d] with capacity %d", lo, hi, mx, capacity))
	}
	if isStr {
		if sv.Sym == nil {
			return StrV{S: sv.S[lo:hi]}
		}
		return x.mkStr(sv.Sym[lo:hi])
	}
	if obj == nil {
		return SliceV{}
	}
	return SliceV{Obj: obj, Off: off + lo*ec, Len: hi - lo, Cap: mx - lo}
}

func (x *Exec) makeSlice(f *frame, ins *ssa.MakeSlice) Value {
	et := ins.Type().Underlying().(*types.Slice).Elem()
	lt0 := x.term(f, ins.Len)
	ct0 := x.term(f, ins.Cap)
	widen := func(t *Term, ty types.Type) *Term {
		if t.W < 64 {
			if _, signed, _ := typeIntWidth(ty); signed {
				return x.ts.SExt(t, 64)
			}
			return x.ts.ZExt(t, 64)
		}
		return t
	}
	lt := widen(lt0, ins.Len.Type())
	ct := widen(ct0, ins.Cap.Type())
	if !lt.IsConst() && ct0 == lt0 && x.cfg.Params["lazy_make"] == 1 {
		x.allocCheck(lt, "make len")
		if !x.branch(x.ts.ULe(lt, x.ts.ConstU(64, uint64(x.cfg.MaxLen)))) {
			if x.branch(x.ts.SLt(lt, x.ts.ConstU(64, 0))) {
				x.goPanic("make", "make len: len out of range")
			}
			x.abort("limit", fmt.Sprintf("make len: symbolic length beyond bound %d", x.cfg.MaxLen))
		}
		s := x.newSlice(et, x.cfg.MaxLen, x.cfg.MaxLen)
		return SymSliceV{Obj: s.Obj, Len: lt, Cap: x.cfg.MaxLen}
	}
	n := x.symLen(lt, "make len")
	c := n
	if ct0 != lt0 {
		c = x.symLen(ct, "make cap")
	}
	if c < n {
		x.goPanic("make", "makeslice: cap out of range")
	}
	return x.newSlice(et, n, c)
}

// symLen turns a (possibly symbolic) length into a concrete one by case
// splitting up to cfg.MaxLen; larger values make the path incomplete.
func (x *Exec) symLen(t *Term, what string) int {
	if t.IsConst() {
		v := toSigned(t.Val, t.W)
		if v.Sign() < 0 || !v.IsInt64() || v.Int64() > 1<<24 {
			if v.Sign() < 0 {
				x.goPanic("make", what+": len out of range")
			}
			x.abort("unsupported", fmt.Sprintf("%s: concrete size %v too large for engine", what, v))
		}
		return int(v.Int64())
	}
	x.allocCheck(t, what)
	if !x.branch(x.ts.ULe(t, x.ts.ConstU(t.W, uint64(x.cfg.MaxLen)))) {
		// negative (as signed) => Go panics; large => beyond bound
		if x.branch(x.ts.SLt(t, x.ts.ConstU(t.W, 0))) {
			x.goPanic("make", what+": len out of range")
		}
		x.abort("limit", fmt.Sprintf("%s: symbolic length beyond bound %d", what, x.cfg.MaxLen))
	}
	return x.concretize(t, x.cfg.MaxLen+1)
}

func (x *Exec) allocCheck(t *Term, what string) {
	if lim, ok := x.cfg.Params["alloc_limit"]; ok && x.cfg.NoPanic {
		// allocation must be proportional to the input: a feasible size above
		// the limit is a violation (prefer a huge witness, which also crashes natively)
		huge := x.ts.ULt(x.ts.ConstU(t.W, 1<<40), t)
		over := x.ts.ULt(x.ts.ConstU(t.W, uint64(lim)), t)
		if r := x.check(huge); r == Sat {
			x.reportViolation("alloc", fmt.Sprintf("%s: allocation size not bounded by input (limit %d elements)", what, lim), x.where(), huge)
		} else if r2 := x.check(over); r2 == Sat {
			x.reportViolation("alloc", fmt.Sprintf("%s: allocation size not bounded by input (limit %d elements)", what, lim), x.where(), over)
		} else if r2 == Unknown {
			x.res.Incomplete = append(x.res.Incomplete, what+": allocation bound query unknown")
		}
	}
}

func (r *HarnessResult) noteAlloc(what string, t *Term) {}

func (x *Exec) newSlice(et types.Type, n, c int) SliceV {
	ec := x.ncells(et)
	o := x.newObject(c*ec, "makeslice")
	if ec == 1 {
		z := x.zeroLeaf(et)
		for i := range o.Cells {
			o.Cells[i] = z
		}
	} else if c > 0 {
		z := x.cellsOf(x.zero(et), et)
		for i := 0; i < c; i++ {
			copy(o.Cells[i*ec:], z)
		}
	}
	return SliceV{Obj: o, Len: n, Cap: c}
}

// ---- maps ----

func (x *Exec) keyEq(a, b Value) *Term {
	if aa, ok := a.(Agg); ok {
		return x.cellsEq(aa, b.(Agg))
	}
	return x.valEq(a, b, nil)
}

// mapFind returns the index of the entry equal to k, or -1. Forks when
// equality is symbolic.
func (x *Exec) mapFind(m *MapObj, k Value) int {
	if m == nil {
		return -1
	}
	for i := range m.Entries {
		e := &m.Entries[i]
		if e.Deleted {
			continue
		}
		eq := x.keyEq(e.K, k)
		if x.branch(eq) {
			return i
		}
	}
	return -1
}

func (x *Exec) mapSet(m *MapObj, k, v Value) {
	i := x.mapFind(m, k)
	if i >= 0 {
		m.Entries[i].V = v
		return
	}
	m.Entries = append(m.Entries, mapEntry{K: k, V: v})
}

func (x *Exec) lookup(f *frame, ins *ssa.Lookup) Value {
	base := x.get(f, ins.X)
	switch b := base.(type) {
	case StrV:
		idx := x.term(f, ins.Index)
		_, signed, _ := typeIntWidth(ins.Index.Type())
		i := x.idxConcrete(idx, b.Len(), signed, "string")
		return x.strBytes(b)[i]
	case *MapObj:
		k := x.get(f, ins.Index)
		vt := ins.X.Type().Underlying().(*types.Map).Elem()
		i := x.mapFind(b, k)
		var v Value
		if i >= 0 {
			v = b.Entries[i].V
		} else {
			v = x.zero(vt)
		}
		if ins.CommaOk {
			return Tuple{v, x.ts.Bool(i >= 0)}
		}
		return v
	}
	x.abort("unsupported", fmt.Sprintf("Lookup on %T", base))
	return nil
}

type rangeIter struct {
	m    *MapObj
	keys []mapEntry
	s    StrV
	i    int
	str  bool
}

func (x *Exec) rangeInit(f *frame, ins *ssa.Range) Value {
	switch b := x.get(f, ins.X).(type) {
	case *MapObj:
		it := &rangeIter{m: b}
		if b != nil {
			for _, e := range b.Entries {
				if !e.Deleted {
					it.keys = append(it.keys, e)
				}
			}
		}
		return &Native{Kind: "iter", Data: it}
	case StrV:
		return &Native{Kind: "iter", Data: &rangeIter{s: b, str: true}}
	}
	x.abort("unsupported", "range over unsupported type")
	return nil
}

func (x *Exec) rangeNext(f *frame, ins *ssa.Next) Value {
	it := x.get(f, ins.Iter).(*Native).Data.(*rangeIter)
	ts := x.ts
	if it.str {
		if it.s.Sym != nil {
			x.abort("unsupported", "range over symbolic string")
		}
		if it.i >= len(it.s.S) {
			return Tuple{ts.False, ts.ConstU(64, 0), ts.ConstU(32, 0)}
		}
		// decode rune concretely
		r, size := rune(it.s.S[it.i]), 1
		for _, rr := range it.s.S[it.i:] {
			r = rr
			size = len(string(rr))
			break
		}
		k := it.i
		it.i += size
		return Tuple{ts.True, ts.ConstU(64, uint64(k)), ts.ConstI(32, int64(r))}
	}
	for it.i < len(it.keys) {
		e := it.keys[it.i]
		it.i++
		// entry may have been deleted during iteration
		cur := -1
		for j := range it.m.Entries {
			if !it.m.Entries[j].Deleted && x.keyEq(it.m.Entries[j].K, e.K).IsTrue() {
				cur = j
				break
			}
		}
		if cur < 0 {
			continue
		}
		return Tuple{ts.True, e.K, it.m.Entries[cur].V}
	}
	mt := ins.Iter.(*ssa.Range).X.Type().Underlying().(*types.Map)
	return Tuple{ts.False, x.zero(mt.Key()), x.zero(mt.Elem())}
}

// ---- builtins ----

func (x *Exec) builtin(f *frame, b *ssa.Builtin, args []Value, argv []ssa.Value) Value {
	ts := x.ts
	if n := b.Name(); n != "len" && n != "cap" {
		for i, a := range args {
			if sv, ok := a.(SymSliceV); ok {
				args[i] = x.sl(sv)
			}
		}
	}
	switch b.Name() {
	case "len":
		switch a := args[0].(type) {
		case SymSliceV:
			return a.Len
		case SliceV:
			return ts.ConstU(64, uint64(a.Len))
		case StrV:
			return ts.ConstU(64, uint64(a.Len()))
		case *MapObj:
			n := 0
			if a != nil {
				for _, e := range a.Entries {
					if !e.Deleted {
						n++
					}
				}
			}
			return ts.ConstU(64, uint64(n))
		case Agg:
			return ts.ConstU(64, uint64(argv[0].Type().Underlying().(*types.Array).Len()))
		case Ptr:
			return ts.ConstU(64, uint64(argv[0].Type().Underlying().(*types.Pointer).Elem().Underlying().(*types.Array).Len()))
		}
	case "cap":
		switch a := args[0].(type) {
		case SymSliceV:
			return a.Len
		case SliceV:
			return ts.ConstU(64, uint64(a.Cap))
		case Agg:
			return ts.ConstU(64, uint64(argv[0].Type().Underlying().(*types.Array).Len()))
		case Ptr:
			return ts.ConstU(64, uint64(argv[0].Type().Underlying().(*types.Pointer).Elem().Underlying().(*types.Array).Len()))
		}
	case "append":
		s := x.sl(args[0])
		st := argv[0].Type().Underlying().(*types.Slice)
		ec := x.ncells(st.Elem())
		var addCells []Value
		var addLen int
		switch a := args[1].(type) {
		case SliceV:
			addLen = a.Len
			if a.Obj != nil {
				addCells = a.Obj.Cells[a.Off : a.Off+a.Len*ec]
			}
		case StrV:
			for _, t := range x.strBytes(a) {
				addCells = append(addCells, t)
			}
			addLen = a.Len()
		}
		if addLen == 0 {
			return s
		}
		if s.Obj != nil && s.Len+addLen <= s.Cap {
			if s.Obj.Caller && x.trackWrites {
				x.writeEvents++
				x.event("caller-write", fmt.Sprintf("append into caller backing array %s at %s", s.Obj.Name, x.where()))
			}
			copy(s.Obj.Cells[s.Off+s.Len*ec:], addCells)
			return SliceV{Obj: s.Obj, Off: s.Off, Len: s.Len + addLen, Cap: s.Cap}
		}
		nl := s.Len + addLen
		nc := nl
		if nc < 2*s.Cap {
			nc = 2 * s.Cap
		}
		ns := x.newSlice(st.Elem(), nl, nc)
		ns.Obj.Name = "append@" + f.fn.Name()
		if s.Obj != nil {
			copy(ns.Obj.Cells, s.Obj.Cells[s.Off:s.Off+s.Len*ec])
		}
		copy(ns.Obj.Cells[s.Len*ec:], addCells)
		return ns
	case "copy":
		d := x.sl(args[0])
		ec := x.ncells(argv[0].Type().Underlying().(*types.Slice).Elem())
		var src []Value
		var n int
		switch a := args[1].(type) {
		case SliceV:
			n = min(d.Len, a.Len)
			if n > 0 {
				src = append([]Value{}, a.Obj.Cells[a.Off:a.Off+n*ec]...)
			}
		case StrV:
			n = min(d.Len, a.Len())
			for _, t := range x.strBytes(a)[:n] {
				src = append(src, t)
			}
		}
		if n > 0 {
			if d.Obj.Caller && x.trackWrites {
				x.writeEvents++
				x.event("caller-write", fmt.Sprintf("copy into %s at %s", d.Obj.Name, x.where()))
			}
			copy(d.Obj.Cells[d.Off:], src)
		}
		return ts.ConstU(64, uint64(n))
	case "delete":
		m := args[0].(*MapObj)
		i := x.mapFind(m, args[1])
		if i >= 0 {
			m.Entries[i].Deleted = true
		}
		return nil
	case "print", "println":
		return nil
	case "recover":
		return Iface{}
	case "min", "max":
		r := args[0].(*Term)
		_, signed, _ := typeIntWidth(argv[0].Type())
		for _, a := range args[1:] {
			at := a.(*Term)
			var lt *Term
			if signed {
				lt = ts.SLt(at, r)
			} else {
				lt = ts.ULt(at, r)
			}
			if b.Name() == "min" {
				r = ts.Ite(lt, at, r)
			} else {
				r = ts.Ite(lt, r, at)
			}
		}
		return r
	case "clear":
		switch a := args[0].(type) {
		case *MapObj:
			if a != nil {
				a.Entries = nil
			}
		case SliceV:
			et := argv[0].Type().Underlying().(*types.Slice).Elem()
			ec := x.ncells(et)
			z := x.cellsOf(x.zero(et), et)
			for i := 0; i < a.Len; i++ {
				copy(a.Obj.Cells[a.Off+i*ec:], z)
			}
		}
		return nil
	case "ssa:wrapnilchk":
		if p, ok := args[0].(Ptr); ok && p.Obj == nil {
			x.goPanic("nil-deref", "value method called via nil pointer")
		}
		return args[0]
	case "Slice": // unsafe.Slice(ptr, len)
		p := args[0].(Ptr)
		n := x.symLen(args[1].(*Term), "unsafe.Slice")
		if p.Obj == nil {
			return SliceV{}
		}
		return SliceV{Obj: p.Obj, Off: p.Off, Len: n, Cap: n}
	case "SliceData":
		s := x.sl(args[0])
		if s.Obj == nil {
			return Ptr{}
		}
		return Ptr{Obj: s.Obj, Off: s.Off}
	case "String": // unsafe.String(ptr, len)
		p := args[0].(Ptr)
		n := x.symLen(args[1].(*Term), "unsafe.String")
		b := make([]*Term, n)
		for i := 0; i < n; i++ {
			b[i] = p.Obj.Cells[p.Off+i].(*Term)
		}
		return x.mkStr(b)
	case "StringData":
		s := args[0].(StrV)
		b := x.strBytes(s)
		o := x.newObject(len(b), "stringdata")
		for i, t := range b {
			o.Cells[i] = t
		}
		return Ptr{Obj: o}
	}
	x.abort("unsupported", fmt.Sprintf("builtin %s on %T", b.Name(), args[0]))
	return nil
}

// ---- path driver ----

func (x *Exec) resetPath() {
	x.globals = map[*ssa.Global]*Object{}
	x.initDone = map[*ssa.Package]bool{}
	x.frames = nil
	x.pc = nil
	x.pcSyms = nil
	x.pcSet = map[int]bool{}
	x.pos = 0
	x.decisions = nil
	x.nextObj = 0
	x.nextMap = 0
	x.freshCtr = 0
	x.pathUnknown = false
	x.siteCtr = map[string]int{}
	x.trackWrites = false
	x.cfg.NoPanic = false
	x.bigVals = nil
	x.shapers = nil
	x.weightCtr = 0
	x.writeEvents = 0
	x.spCtr = 0
	x.lazyCount = 0
	x.pcUnchecked = false
	x.skipIntr = nil
}

func (x *Exec) initLayout() {
	x.layoutCache = map[types.Type]int{}
}

// RunOne executes the single path selected by prefix (extending it with first
// feasible choices) and returns its result plus newly discovered alternatives.
func (x *Exec) RunOne(fn *ssa.Function, prefix []int) (*HarnessResult, [][]int) {
	x.res = &HarnessResult{Name: fn.Name(), Reached: map[string]int{}, Panics: map[string]int{}}
	x.harness = fn.Name()
	x.work = nil
	x.fnSeen = map[string]bool{}
	x.qseen = map[string]bool{}
	x.nondet = map[string]*Term{}
	x.nondetOrd = nil
	x.steps = 0
	incomplete := map[string]bool{}
	unsupported := map[string]bool{}
	x.resetPath()
	x.prefix = prefix
	x.sol.Push()
	x.runPath(fn, incomplete, unsupported)
	for x.sol.Depth() > 0 {
		x.sol.Pop()
	}
	for k := range incomplete {
		x.res.Incomplete = append(x.res.Incomplete, k)
	}
	for k := range unsupported {
		x.res.Unsupported = append(x.res.Unsupported, k)
	}
	for k := range x.fnSeen {
		x.res.Functions = append(x.res.Functions, k)
	}
	x.res.Steps = x.steps
	x.res.DistinctQ = len(x.qseen)
	x.res.Nondet = x.nondetOrd
	return x.res, x.work
}

func (x *Exec) runPath(fn *ssa.Function, incomplete, unsupported map[string]bool) {
	defer func() {
		r := recover()
		if r == nil {
			x.res.Completed++
			return
		}
		switch s := r.(type) {
		case goPanicSig:
			key := s.Kind + ": " + s.Msg + " @ " + s.Site
			x.res.Panics[key]++
			if x.cfg.NoPanic {
				x.reportViolation("panic", s.Kind+": "+s.Msg, s.Site, nil)
			}
			x.res.Completed++
		case abortSig:
			switch s.Kind {
			case "infeasible", "assume-false":
				x.res.InfeasibleEnd++
			case "unsupported":
				unsupported[s.Msg] = true
			default:
				incomplete[s.Msg] = true
			}
		default:
			buf := make([]byte, 4096)
			buf = buf[:runtime.Stack(buf, false)]
			unsupported[fmt.Sprintf("engine panic: %v @ %s\n%s", r, x.where(), buf)] = true
		}
	}()
	// run package init of the harness package first
	if fn.Pkg != nil {
		x.runInit(fn.Pkg)
	}
	x.call(FuncV{Fn: fn}, nil, nil)
}

// reportViolation records a violation; cond (optional) is the extra
// constraint (negated assertion) under which to fetch the model.
func (x *Exec) reportViolation(kind, msg, site string, cond *Term) {
	v := Violation{Harness: x.harness, Kind: kind, Msg: msg, Site: site, Model: map[string]string{}, Path: append([]int{}, x.decisions...)}
	x.sol.Push()
	for _, c := range x.pc {
		x.sol.Assert(c)
	}
	if cond != nil {
		x.sol.Assert(cond)
	}
	// make sure all nondet vars are defined before check
	var vars []*Term
	for _, n := range x.nondetOrd {
		t := x.nondet[n]
		x.sol.define(t)
		vars = append(vars, t)
	}
	r := Unknown // NB: the zero value of Result is Unsat
	var vals map[int]*big.Int
	if x.cfg.Params["int_alt"] == 1 {
		// arithmetic-heavy harnesses: take the counterexample from the integer
		// back ends (validated by native replay); bit-vector solvers only if
		// the query is outside the integer rendering
		all := append(append([]*Term{}, x.pc...), cond)
		if cond == nil {
			all = all[:len(all)-1]
		}
		imt := 20000
		if v := x.cfg.Params["int_timeout_ms"]; v > imt {
			imt = v
		}
		r, vals = x.sol.IntModel(all, vars, imt)
		x.res.Queries++
		if r == Sat {
			for _, t := range vars {
				if _, ok := vals[t.ID]; !ok {
					vals[t.ID] = new(big.Int) // unconstrained in the query
				}
			}
		}
	}
	if r != Sat && r != Unsat {
		r, vals = x.sol.CheckModel(vars)
		x.res.Queries++
	}
	if r == Unknown && x.cfg.FallbackMs > 0 {
		var names []string
		for _, t := range vars {
			names = append(names, tname(t))
		}
		var txt string
		r, txt, _ = x.sol.Fallback(x.cfg.FallbackMs, names)
		x.res.FallbackQ++
		if r == Sat {
			pv := parseValuesMulti(txt)
			vals = map[int]*big.Int{}
			if len(pv) == len(vars) {
				for i, t := range vars {
					vals[t.ID] = pv[i]
				}
			}
		}
	}
	v.Status = r.String()
	if r == Sat {
		for _, n := range x.nondetOrd {
			if bv, ok := vals[x.nondet[n].ID]; ok {
				v.Model[n] = "0x" + bv.Text(16)
			}
		}
	}
	x.sol.Pop()
	if r == Unsat {
		return // not actually feasible
	}
	if r == Unknown {
		x.res.Incomplete = append(x.res.Incomplete, fmt.Sprintf("%s %q at %s: feasibility unknown (solver timeout)", kind, msg, site))
		return
	}
	// dedupe by kind+site+msg
	for _, o := range x.res.Violations {
		if o.Kind == v.Kind && o.Site == v.Site && o.Msg == v.Msg {
			return
		}
	}
	x.res.Violations = append(x.res.Violations, v)
}
