package main

// Integer ("int-blasted") rendering of a query: every bit-vector term of width
// w becomes an Int expression with the invariant 0 <= e < 2^w, wrap-around made
// explicit. Linear integer arithmetic decides currency-sum / overflow-flag
// queries in milliseconds that bit-blasting needs seconds to minutes for.
// Only a fragment is translated (add, sub, neg, comparison, concat, extract,
// ite, boolean structure, multiplication/division by constants, UF); anything
// else makes the translation fail and the caller falls back to bit-vectors.

import (
	"fmt"
	"math/big"
	"os"
	"os/exec"
	"strings"
	"time"
)

type intPrinter struct {
	ts    *TermStore
	sb    strings.Builder
	done  map[int]bool
	ok    bool
	why   string
	ufs   map[string]bool
	axiom func(t *Term) []*Term
	extra []*Term // axioms discovered while printing
}

func pow2(n int) string { return new(big.Int).Lsh(bigOne, uint(n)).String() }

func iname(t *Term) string {
	switch t.Op {
	case OpConst:
		if t.W == 0 {
			if t.Val.Sign() != 0 {
				return "true"
			}
			return "false"
		}
		return t.Val.String()
	case OpVar:
		return smtName(t.Name)
	}
	return fmt.Sprintf("i%d", t.ID)
}

func isort(t *Term) string {
	if t.W == 0 {
		return "Bool"
	}
	return "Int"
}

func (p *intPrinter) fail(why string) {
	if p.ok {
		p.ok = false
		p.why = why
	}
}

func (p *intPrinter) def(t *Term) {
	if !p.ok || t.Op == OpConst || p.done[t.ID] {
		return
	}
	p.done[t.ID] = true
	for _, a := range t.Args {
		p.def(a)
	}
	w := t.W
	emit := func(body string) {
		fmt.Fprintf(&p.sb, "(define-fun %s () %s %s)\n", iname(t), isort(t), body)
	}
	a := func(i int) string { return iname(t.Args[i]) }
	switch t.Op {
	case OpVar:
		fmt.Fprintf(&p.sb, "(declare-const %s %s)\n", iname(t), isort(t))
		if w > 0 {
			fmt.Fprintf(&p.sb, "(assert (and (<= 0 %s) (< %s %s)))\n", iname(t), iname(t), pow2(w))
		}
	case OpNot:
		emit("(not " + a(0) + ")")
	case OpAnd, OpOr:
		var as []string
		for i := range t.Args {
			as = append(as, a(i))
		}
		emit("(" + opSMT[t.Op] + " " + strings.Join(as, " ") + ")")
	case OpEq:
		emit("(= " + a(0) + " " + a(1) + ")")
	case OpIte:
		emit("(ite " + a(0) + " " + a(1) + " " + a(2) + ")")
	case OpBvAdd:
		emit(fmt.Sprintf("(let ((s (+ %s %s))) (ite (>= s %s) (- s %s) s))", a(0), a(1), pow2(w), pow2(w)))
	case OpBvSub:
		emit(fmt.Sprintf("(let ((s (- %s %s))) (ite (< s 0) (+ s %s) s))", a(0), a(1), pow2(w)))
	case OpBvNeg:
		emit(fmt.Sprintf("(ite (= %s 0) 0 (- %s %s))", a(0), pow2(w), a(0)))
	case OpBvULt:
		emit("(< " + a(0) + " " + a(1) + ")")
	case OpBvULe:
		emit("(<= " + a(0) + " " + a(1) + ")")
	case OpBvSLt, OpBvSLe:
		// signed compare: flip the sign bit range
		half := pow2(t.Args[0].W - 1)
		full := pow2(t.Args[0].W)
		sx := fmt.Sprintf("(ite (>= %s %s) (- %s %s) %s)", a(0), half, a(0), full, a(0))
		sy := fmt.Sprintf("(ite (>= %s %s) (- %s %s) %s)", a(1), half, a(1), full, a(1))
		op := "<"
		if t.Op == OpBvSLe {
			op = "<="
		}
		emit("(" + op + " " + sx + " " + sy + ")")
	case OpConcat:
		// sum of parts times 2^(bits below)
		below := t.W
		var parts []string
		for i, s := range t.Args {
			below -= s.W
			if below == 0 {
				parts = append(parts, a(i))
			} else {
				parts = append(parts, fmt.Sprintf("(* %s %s)", a(i), pow2(below)))
			}
		}
		emit("(+ " + strings.Join(parts, " ") + ")")
	case OpExtract:
		x := a(0)
		if t.Lo > 0 {
			x = fmt.Sprintf("(div %s %s)", x, pow2(t.Lo))
		}
		if t.Hi < t.Args[0].W-1 {
			x = fmt.Sprintf("(mod %s %s)", x, pow2(t.Hi-t.Lo+1))
		}
		emit(x)
	case OpBvMul:
		if t.Args[0].IsConst() || t.Args[1].IsConst() {
			emit(fmt.Sprintf("(mod (* %s %s) %s)", a(0), a(1), pow2(w)))
		} else {
			p.fail("symbolic multiplication")
		}
	case OpBvUDiv:
		if t.Args[1].IsConst() && t.Args[1].Val.Sign() != 0 {
			emit(fmt.Sprintf("(div %s %s)", a(0), a(1)))
		} else {
			p.fail("symbolic division")
		}
	case OpBvURem:
		if t.Args[1].IsConst() && t.Args[1].Val.Sign() != 0 {
			emit(fmt.Sprintf("(mod %s %s)", a(0), a(1)))
		} else {
			p.fail("symbolic remainder")
		}
	case OpBvSDiv, OpBvSRem:
		// signed division by a positive constant: truncate toward zero
		if t.Args[1].IsConst() && t.Args[1].Val.Sign() != 0 && t.Args[1].Val.Bit(w-1) == 0 {
			half, full := pow2(w-1), pow2(w)
			sx := fmt.Sprintf("(ite (>= %s %s) (- %s %s) %s)", a(0), half, a(0), full, a(0))
			c := a(1)
			var q string
			if t.Op == OpBvSDiv {
				q = fmt.Sprintf("(let ((x %s)) (ite (>= x 0) (div x %s) (- (div (- x) %s))))", sx, c, c)
			} else {
				q = fmt.Sprintf("(let ((x %s)) (ite (>= x 0) (mod x %s) (- (mod (- x) %s))))", sx, c, c)
			}
			emit(fmt.Sprintf("(let ((r %s)) (ite (< r 0) (+ r %s) r))", q, full))
		} else {
			p.fail("signed division by non-constant")
		}
	case OpBvNot:
		emit(fmt.Sprintf("(- %s %s)", new(big.Int).Sub(new(big.Int).Lsh(bigOne, uint(w)), bigOne).String(), a(0)))
	case OpSExt:
		k := t.Args[0].W
		emit(fmt.Sprintf("(ite (>= %s %s) (+ %s %s) %s)", a(0), pow2(k-1), a(0), new(big.Int).Sub(new(big.Int).Lsh(bigOne, uint(w)), new(big.Int).Lsh(bigOne, uint(k))).String(), a(0)))
	case OpUF:
		// hash-like functions over a concatenation take the segments as
		// separate integer arguments (keeps the integers small); applications
		// with different segmentations become different functions, which only
		// weakens the formula (unsat answers stay sound)
		args := t.Args
		name := t.Name
		if _, inj := injFamily(t.Name); inj && len(t.Args) == 1 && t.Args[0].Op == OpConcat {
			args = t.Args[0].Args
			var ws []string
			for _, s := range args {
				ws = append(ws, fmt.Sprint(s.W))
			}
			name = t.Name + "#" + strings.Join(ws, ".")
		}
		if !p.ufs[name] {
			p.ufs[name] = true
			var as []string
			for _, s := range args {
				if s.W == 0 {
					as = append(as, "Bool")
				} else {
					as = append(as, "Int")
				}
			}
			rs := "Int"
			if t.W == 0 {
				rs = "Bool"
			}
			fmt.Fprintf(&p.sb, "(declare-fun %s (%s) %s)\n", smtName(name), strings.Join(as, " "), rs)
		}
		if len(args) == 0 {
			emit(smtName(name))
		} else {
			var as []string
			for _, s := range args {
				as = append(as, iname(s))
			}
			emit("(" + smtName(name) + " " + strings.Join(as, " ") + ")")
		}
		if w > 0 {
			fmt.Fprintf(&p.sb, "(assert (and (<= 0 %s) (< %s %s)))\n", iname(t), iname(t), pow2(w))
		}
		if p.axiom != nil {
			p.extra = append(p.extra, p.axiom(t)...)
		}
	default:
		p.fail("operator " + opSMT[t.Op])
	}
}

// intScript renders assertions as an integer-arithmetic script, or ok=false.
func (s *Solver) intScript(asserts []*Term) (string, bool, string) {
	p := &intPrinter{ts: s.ts, done: map[int]bool{}, ok: true, ufs: map[string]bool{}, axiom: s.Axioms}
	var apps []*Term
	emitAssert := func(t *Term) {
		p.def(t)
		if p.ok {
			fmt.Fprintf(&p.sb, "(assert %s)\n", iname(t))
		}
	}
	for _, t := range asserts {
		emitAssert(t)
	}
	for len(p.extra) > 0 && p.ok {
		ex := p.extra
		p.extra = nil
		for _, t := range ex {
			emitAssert(t)
		}
	}
	if !p.ok {
		return "", false, p.why
	}
	// pairwise injectivity for hash/signature families
	for id := range p.done {
		_ = id
	}
	_ = apps
	return p.sb.String(), true, ""
}

// CheckInt decides the conjunction of asserts in integer arithmetic with a
// one-shot z3 run. Returns Unknown when the translation does not apply.
func (s *Solver) CheckInt(asserts []*Term, timeoutMs int) (Result, string) {
	// injectivity axioms for UF families are needed too: collect applications
	var apps []*Term
	seen := map[int]bool{}
	var rec func(t *Term)
	rec = func(t *Term) {
		if seen[t.ID] {
			return
		}
		seen[t.ID] = true
		if t.Op == OpUF {
			if _, ok := injFamily(t.Name); ok {
				apps = append(apps, t)
			}
		}
		for _, a := range t.Args {
			rec(a)
		}
	}
	for _, t := range asserts {
		rec(t)
	}
	// the integer rendering pays off for arithmetic slices only; wide terms
	// (hash pre-images) stay with the bit-vector solvers
	wide := false
	var chk func(t *Term)
	seenW := map[int]bool{}
	chk = func(t *Term) {
		if seenW[t.ID] || wide {
			return
		}
		seenW[t.ID] = true
		if t.W > 330 {
			wide = true
			return
		}
		if t.Op == OpUF {
			if _, inj := injFamily(t.Name); inj {
				wide = true // hash / signature reasoning stays with bit-vectors
				return
			}
		}
		for _, a := range t.Args {
			chk(a)
		}
	}
	for _, t := range asserts {
		chk(t)
	}
	if wide {
		return Unknown, "wide terms"
	}
	all := append([]*Term{}, asserts...)
	for i := range apps {
		for j := 0; j < i; j++ {
			t, u := apps[i], apps[j]
			ft, _ := injFamily(t.Name)
			fu, _ := injFamily(u.Name)
			if ft != fu {
				continue
			}
			if t.Name != u.Name {
				all = append(all, s.ts.Not(s.ts.EqRaw(t, u)))
				continue
			}
			var conj []*Term
			for k := range t.Args {
				conj = append(conj, s.ts.Eq(t.Args[k], u.Args[k]))
			}
			all = append(all, s.ts.Implies(s.ts.EqRaw(t, u), s.ts.And(conj...)))
		}
	}
	script, ok, why := s.intScript(all)
	if !ok {
		return Unknown, why
	}
	f, err := os.CreateTemp("", "symgo-int-*.smt2")
	if err != nil {
		return Unknown, "tempfile"
	}
	defer os.Remove(f.Name())
	f.WriteString(script + "(check-sat)\n")
	f.Close()
	if d := os.Getenv("SYMGO_DUMPINT"); d != "" {
		s.IntQueries++
		os.WriteFile(fmt.Sprintf("%s/int-%d-%d.smt2", d, os.Getpid(), s.IntQueries), []byte(script+"(check-sat)\n"), 0o644)
		s.IntQueries--
	}
	chain := [][]string{{"z3", "-smt2", fmt.Sprintf("-t:%d", timeoutMs), f.Name()}}
	if s.IntAlt {
		// z3 4.8.12 is weak on div/mod by large constants; cvc5 and z3 5.x decide
		// such scripts in well under a second where it times out
		chain = [][]string{{"cvc5", fmt.Sprintf("--tlimit=%d", timeoutMs), f.Name()}, {"z3-new", "-smt2", fmt.Sprintf("-t:%d", timeoutMs), f.Name()}, chain[0]}
	}
	s.IntQueries++
	for _, alt := range chain {
		start := time.Now()
		cmd := exec.Command(alt[0], alt[1:]...)
		timer := time.AfterFunc(time.Duration(timeoutMs+5000)*time.Millisecond, func() { cmd.Process.Kill() })
		out, _ := cmd.CombinedOutput()
		timer.Stop()
		s.Time += time.Since(start)
		txt := string(out)
		if strings.Contains(txt, "(error") {
			s.Errors++
			if os.Getenv("SYMGO_DEBUGINT") != "" {
				os.WriteFile("/tmp/int-error.smt2", []byte(script+"(check-sat)\n"), 0o644)
				fmt.Fprintln(os.Stderr, "int-mode error:", alt[0], txt)
			}
			if !s.IntAlt {
				return Unknown, "solver error"
			}
			continue
		}
		for _, l := range strings.Split(txt, "\n") {
			switch strings.TrimSpace(l) {
			case "sat":
				return Sat, ""
			case "unsat":
				return Unsat, ""
			}
		}
	}
	return Unknown, "timeout"
}

// IntModel asks the integer back ends for a model of the conjunction (used for
// counterexamples when the bit-vector solvers cannot decide the query). Only
// variables that occur in the script get a value; the caller validates the
// model by native replay.
func (s *Solver) IntModel(asserts []*Term, vars []*Term, timeoutMs int) (Result, map[int]*big.Int) {
	for _, t := range asserts {
		wide := false
		var chk func(t *Term)
		seen := map[int]bool{}
		chk = func(t *Term) {
			if seen[t.ID] || wide {
				return
			}
			seen[t.ID] = true
			if t.W > 330 {
				wide = true
				return
			}
			if t.Op == OpUF {
				if _, inj := injFamily(t.Name); inj {
					wide = true
					return
				}
			}
			for _, a := range t.Args {
				chk(a)
			}
		}
		chk(t)
		if wide {
			return Unknown, nil
		}
	}
	script, ok, _ := s.intScript(asserts)
	if !ok {
		return Unknown, nil
	}
	var names []string
	var used []*Term
	for _, v := range vars {
		if v.Op == OpVar && strings.Contains(script, "(declare-const "+iname(v)+" ") {
			names = append(names, iname(v))
			used = append(used, v)
		}
	}
	f, err := os.CreateTemp("", "symgo-intm-*.smt2")
	if err != nil {
		return Unknown, nil
	}
	defer os.Remove(f.Name())
	f.WriteString("(set-option :produce-models true)\n" + script + "(check-sat)\n")
	if len(names) > 0 {
		f.WriteString("(get-value (" + strings.Join(names, " ") + "))\n")
	}
	f.Close()
	for _, alt := range [][]string{{"cvc5", fmt.Sprintf("--tlimit=%d", timeoutMs), f.Name()}, {"z3-new", "-smt2", fmt.Sprintf("-t:%d", timeoutMs), f.Name()}} {
		cmd := exec.Command(alt[0], alt[1:]...)
		timer := time.AfterFunc(time.Duration(timeoutMs+5000)*time.Millisecond, func() { cmd.Process.Kill() })
		out, _ := cmd.CombinedOutput()
		timer.Stop()
		txt := string(out)
		lines := strings.SplitN(strings.TrimSpace(txt), "\n", 2)
		switch strings.TrimSpace(lines[0]) {
		case "unsat":
			return Unsat, nil
		case "sat":
			res := map[int]*big.Int{}
			if len(lines) > 1 {
				rest := lines[1]
				for _, v := range used {
					nm := iname(v)
					i := strings.Index(rest, "("+nm+" ")
					if i < 0 {
						continue
					}
					j := i + len(nm) + 2
					k := j
					for k < len(rest) && rest[k] >= '0' && rest[k] <= '9' {
						k++
					}
					if k > j {
						if n, ok := new(big.Int).SetString(rest[j:k], 10); ok {
							res[v.ID] = n
						}
					}
				}
			}
			return Sat, res
		}
	}
	return Unknown, nil
}
