package main

import (
	"sync"
	"fmt"
	"go/types"
	"math/big"
	"strings"

	"golang.org/x/crypto/blake2b"
	"golang.org/x/tools/go/ssa"
)

type intrinsic func(x *Exec, fv FuncV, args []Value) Value

var intrinsics = map[string]intrinsic{}

const vhPath = "go.sia.tech/core/internal/vh"

func init() {
	for k, v := range map[string]intrinsic{
		// ---- harness API ----
		vhPath + ".U64":     func(x *Exec, fv FuncV, a []Value) Value { return x.fresh(x.cstr(a[0]), 64) },
		vhPath + ".I64":     func(x *Exec, fv FuncV, a []Value) Value { return x.fresh(x.cstr(a[0]), 64) },
		vhPath + ".Int":     func(x *Exec, fv FuncV, a []Value) Value { return x.fresh(x.cstr(a[0]), 64) },
		vhPath + ".U32":     func(x *Exec, fv FuncV, a []Value) Value { return x.fresh(x.cstr(a[0]), 32) },
		vhPath + ".U16":     func(x *Exec, fv FuncV, a []Value) Value { return x.fresh(x.cstr(a[0]), 16) },
		vhPath + ".U8":      func(x *Exec, fv FuncV, a []Value) Value { return x.fresh(x.cstr(a[0]), 8) },
		vhPath + ".Bool":    func(x *Exec, fv FuncV, a []Value) Value { return x.fresh(x.cstr(a[0]), 0) },
		vhPath + ".Bytes":   vhBytes,
		vhPath + ".Fill":    vhFill,
		vhPath + ".Assume":  vhAssume,
		vhPath + ".Assert":  vhAssert,
		vhPath + ".Reach":   vhReach,
		vhPath + ".ReachIf": vhReachIf,
		vhPath + ".Choice":  vhChoice,
		vhPath + ".Param":   vhParam,
		vhPath + ".Eq":      vhEq,
		vhPath + ".Panics":  vhPanics,
		vhPath + ".PanicMsg": vhPanicMsg,
		vhPath + ".And":     vhAnd,
		vhPath + ".Or":      vhOr,
		vhPath + ".Implies": func(x *Exec, fv FuncV, a []Value) Value { return x.ts.Implies(a[0].(*Term), a[1].(*Term)) },
		vhPath + ".Not":     func(x *Exec, fv FuncV, a []Value) Value { return x.ts.Not(a[0].(*Term)) },
		vhPath + ".Ite64": func(x *Exec, fv FuncV, a []Value) Value {
			return x.ts.Ite(a[0].(*Term), a[1].(*Term), a[2].(*Term))
		},
		vhPath + ".SigOK": func(x *Exec, fv FuncV, a []Value) Value {
			pk := x.cellTerms(a[0].(Agg))
			msg := x.cellTerms(a[1].(Agg))
			sig := x.cellTerms(a[2].(Agg))
			return x.sigOK(x.ts.Concat(pk...), x.ts.Concat(msg...), x.ts.Concat(sig...))
		},
		vhPath + ".Sign": func(x *Exec, fv FuncV, a []Value) Value {
			pk := x.cellTerms(a[0].(Agg))
			msg := x.cellTerms(a[1].(Agg))
			app := x.ts.UF("SIG_32", 512, x.ts.Concat(pk...), x.ts.Concat(msg...))
			out := make(Agg, 64)
			for i := 0; i < 64; i++ {
				out[i] = x.ts.Extract(app, 511-8*i, 504-8*i)
			}
			return out
		},
		vhPath + ".Sha256": func(x *Exec, fv FuncV, a []Value) Value {
			b := x.cellTerms(a[0].(Agg))
			return x.hashToAgg(x.ts.UF(fmt.Sprintf("S256_%d", len(b)), 256, x.ts.Concat(b...)))
		},
		vhPath + ".GenuineID": func(x *Exec, fv FuncV, a []Value) Value {
			// ID of an element created by an earlier block: an ideal-hash output of
			// an unknown pre-image, from a family disjoint from every hash derived
			// in the current step (no hash cycles / fixed points)
			name := x.cstr(a[0])
			seed := x.fresh(name, 64)
			// one family member per element kind (the kind is the part of the
			// name after the last '.'; e.g. "t.supp.sc0" -> "sc")
			kind := name
			if i := strings.LastIndex(name, "."); i >= 0 {
				kind = name[i+1:]
			}
			kind = strings.TrimRight(kind, "0123456789")
			return x.hashToAgg(x.ts.UF("H_gen_"+kind, 256, seed))
		},
		vhPath + ".WriteEvents": func(x *Exec, fv FuncV, a []Value) Value { return x.ts.ConstU(64, uint64(x.writeEvents)) },
		vhPath + ".Note":        func(x *Exec, fv FuncV, a []Value) Value { x.event("note", x.cstr(a[0])); return nil },
		vhPath + ".TrackWrites": vhTrackWrites,
		vhPath + ".MarkCaller":  vhMarkCaller,
		vhPath + ".Sample":      vhSample,
		vhPath + ".IsConcrete":  func(x *Exec, fv FuncV, a []Value) Value { return x.ts.Bool(true) },

		// ---- hashing ----
		"golang.org/x/crypto/blake2b.Sum256": func(x *Exec, fv FuncV, a []Value) Value {
			return x.hashToAgg(x.hashBytes(x.sliceBytes(x.sl(a[0]))))
		},
		"golang.org/x/crypto/blake2b.New256": func(x *Exec, fv FuncV, a []Value) Value {
			return Tuple{x.newHasher(), Iface{}}
		},
		"go.sia.tech/core/blake2b.hashBlocks": func(x *Exec, fv FuncV, a []Value) Value {
			g := fv.Fn.Pkg.Func("hashBlocksGeneric")
			return x.call(FuncV{Fn: g}, a, nil)
		},
		"crypto/ed25519.Verify": edVerify,
		"crypto/sha256.Sum256": func(x *Exec, fv FuncV, a []Value) Value {
			b := x.sliceBytes(x.sl(a[0]))
			var arg *Term
			if len(b) == 0 {
				return x.hashToAgg(x.ts.UF("S256_0", 256))
			}
			arg = x.ts.Concat(b...)
			return x.hashToAgg(x.ts.UF(fmt.Sprintf("S256_%d", len(b)), 256, arg))
		},

		// ---- math/bits ----
		"math/bits.Add64": func(x *Exec, fv FuncV, a []Value) Value {
			ts := x.ts
			s := ts.Add(ts.Add(ts.ZExt(a[0].(*Term), 65), ts.ZExt(a[1].(*Term), 65)), ts.ZExt(a[2].(*Term), 65))
			return Tuple{ts.Extract(s, 63, 0), ts.ZExt(ts.Extract(s, 64, 64), 64)}
		},
		"math/bits.Sub64": func(x *Exec, fv FuncV, a []Value) Value {
			ts := x.ts
			s := ts.Sub(ts.Sub(ts.ZExt(a[0].(*Term), 65), ts.ZExt(a[1].(*Term), 65)), ts.ZExt(a[2].(*Term), 65))
			return Tuple{ts.Extract(s, 63, 0), ts.ZExt(ts.Extract(s, 64, 64), 64)}
		},
		"math/bits.Mul64": bitsMul64,
		"math/bits.Div64": bitsDiv64,
		"math/bits.LeadingZeros64": func(x *Exec, fv FuncV, a []Value) Value {
			return x.ts.Sub(x.ts.ConstU(64, 64), x.bitLen(a[0].(*Term)))
		},
		"math/bits.LeadingZeros32": func(x *Exec, fv FuncV, a []Value) Value {
			return x.ts.Sub(x.ts.ConstU(64, 32), x.bitLen(x.ts.ZExt(a[0].(*Term), 64)))
		},
		"math/bits.Len64":  func(x *Exec, fv FuncV, a []Value) Value { return x.bitLen(a[0].(*Term)) },
		"math/bits.Len":    func(x *Exec, fv FuncV, a []Value) Value { return x.bitLen(a[0].(*Term)) },
		"math/bits.Len32":  func(x *Exec, fv FuncV, a []Value) Value { return x.bitLen(x.ts.ZExt(a[0].(*Term), 64)) },
		"math/bits.TrailingZeros64": func(x *Exec, fv FuncV, a []Value) Value { return x.trailingZeros(a[0].(*Term)) },
		"math/bits.TrailingZeros":   func(x *Exec, fv FuncV, a []Value) Value { return x.trailingZeros(a[0].(*Term)) },
		"math/bits.TrailingZeros32": func(x *Exec, fv FuncV, a []Value) Value { return x.trailingZeros(a[0].(*Term)) },
		"math/bits.OnesCount64":     func(x *Exec, fv FuncV, a []Value) Value { return x.onesCount(a[0].(*Term)) },
		"math/bits.OnesCount":       func(x *Exec, fv FuncV, a []Value) Value { return x.onesCount(a[0].(*Term)) },

		// ---- bytes / bytealg ----
		"bytes.Equal": func(x *Exec, fv FuncV, a []Value) Value {
			return x.bytesEq(x.sliceBytes(x.sl(a[0])), x.sliceBytes(x.sl(a[1])))
		},
		"internal/bytealg.Equal": func(x *Exec, fv FuncV, a []Value) Value {
			return x.bytesEq(x.sliceBytes(x.sl(a[0])), x.sliceBytes(x.sl(a[1])))
		},
		"bytes.Compare":                    bytesCompare,
		"internal/bytealg.Compare":         bytesCompare,
		"bytes.IndexByte":                  bytesIndexByte,
		"internal/bytealg.IndexByte":       bytesIndexByte,
		"internal/bytealg.IndexByteString": bytesIndexByte,
		"internal/bytealg.CountString":     bytesCount,
		"internal/bytealg.Count":           bytesCount,
		"strings.IndexByte":                bytesIndexByte,
		"internal/stringslite.IndexByte":   bytesIndexByte,
		"internal/bytealg.MakeNoZero": func(x *Exec, fv FuncV, a []Value) Value {
			n := x.symLen(a[0].(*Term), "MakeNoZero")
			return x.newSlice(types.Typ[types.Uint8], n, n)
		},

		// ---- fmt / errors ----
		"fmt.Errorf":   fmtErrorf,
		"fmt.Sprintf":  func(x *Exec, fv FuncV, a []Value) Value { return StrV{S: x.siteTag("fmt.Sprintf")} },
		"fmt.Sprint":   func(x *Exec, fv FuncV, a []Value) Value { return StrV{S: x.siteTag("fmt.Sprint")} },
		"fmt.Sprintln": func(x *Exec, fv FuncV, a []Value) Value { return StrV{S: x.siteTag("fmt.Sprintln")} },
		"fmt.Fprintf":  func(x *Exec, fv FuncV, a []Value) Value { return Tuple{x.ts.ConstU(64, 0), Iface{}} },
		"fmt.Printf":   func(x *Exec, fv FuncV, a []Value) Value { return Tuple{x.ts.ConstU(64, 0), Iface{}} },
		"fmt.Println":  func(x *Exec, fv FuncV, a []Value) Value { return Tuple{x.ts.ConstU(64, 0), Iface{}} },
		"errors.Is":    errorsIs,
		"errors.As":    errorsAs,
		"errors.Join": func(x *Exec, fv FuncV, a []Value) Value {
			return x.opaqueError(x.siteTag("errors.Join"))
		},

		// ---- sync ----
		"(*sync.Pool).Get": poolGet,
		"(*sync.Pool).Put": poolPut,
		"(*sync.Mutex).Lock":      nop,
		"(*sync.Mutex).Unlock":    nop,
		"(*sync.RWMutex).Lock":    nop,
		"(*sync.RWMutex).Unlock":  nop,
		"(*sync.RWMutex).RLock":   nop,
		"(*sync.RWMutex).RUnlock": nop,
		"(*sync.Once).Do": func(x *Exec, fv FuncV, a []Value) Value {
			p := a[0].(Ptr)
			// use first cell region as "done" marker via a side table
			if p.Obj.Name != "once-done" {
				p.Obj.Name = "once-done"
				x.call(a[1].(FuncV), nil, nil)
			}
			return nil
		},

		// ---- sort ----
		"sort.Slice":       sortSlice,
		"sort.SliceStable": sortSlice,

		// ---- misc runtime ----
		"runtime.NumCPU":     func(x *Exec, fv FuncV, a []Value) Value { return x.ts.ConstU(64, 4) },
		"runtime.GOMAXPROCS": func(x *Exec, fv FuncV, a []Value) Value { return x.ts.ConstU(64, 4) },
		"runtime.KeepAlive":  nop,
		"time.Now": func(x *Exec, fv FuncV, a []Value) Value {
			s := x.freshAuto("time.Now", 64)
			x.addPC(x.ts.ULt(s, x.ts.ConstU(64, 1<<40)))
			u := fv.Fn.Pkg.Func("Unix")
			return x.call(FuncV{Fn: u}, []Value{s, x.ts.ConstU(64, 0)}, nil)
		},
		"lukechampine.com/frand.Uint64n": func(x *Exec, fv FuncV, a []Value) Value {
			r := x.freshAuto("frand", 64)
			n := a[0].(*Term)
			x.addPC(x.ts.ULt(r, n))
			return r
		},
		"lukechampine.com/frand.Intn": func(x *Exec, fv FuncV, a []Value) Value {
			r := x.freshAuto("frand", 64)
			n := a[0].(*Term)
			x.addPC(x.ts.ULt(r, n))
			return r
		},
		"lukechampine.com/frand.Read": func(x *Exec, fv FuncV, a []Value) Value {
			s := x.sl(a[0])
			for i := 0; i < s.Len; i++ {
				s.Obj.Cells[s.Off+i] = x.freshAuto("frand.byte", 8)
			}
			return Tuple{x.ts.ConstU(64, uint64(s.Len)), Iface{}}
		},
		"lukechampine.com/frand.Entropy256": func(x *Exec, fv FuncV, a []Value) Value {
			return x.hashToAgg(x.freshAuto("frand.entropy256", 256))
		},
	} {
		intrinsics[k] = v
	}
}

func nop(x *Exec, fv FuncV, a []Value) Value { return nil }

// callBody runs the real body of an intercepted function.
func (x *Exec) callBody(fv FuncV, a []Value) Value {
	name := fv.Fn.String()
	saved := intrinsics[name]
	delete(x.skipIntr, name)
	if x.skipIntr == nil {
		x.skipIntr = map[string]bool{}
	}
	x.skipIntr[name] = true
	defer func() { delete(x.skipIntr, name) }()
	_ = saved
	return x.call(fv, a, nil)
}

func (x *Exec) cstr(v Value) string {
	s, ok := v.(StrV)
	if !ok || s.Sym != nil {
		x.abort("unsupported", "expected concrete string argument")
	}
	return s.S
}

func (x *Exec) siteTag(kind string) string {
	// caller frame position
	w := x.where()
	return kind + "@" + w
}

// ---- bytes helpers ----

func (x *Exec) sliceBytes(s SliceV) []*Term {
	out := make([]*Term, s.Len)
	for i := 0; i < s.Len; i++ {
		t, ok := s.Obj.Cells[s.Off+i].(*Term)
		if !ok {
			x.abort("unsupported", fmt.Sprintf("byte slice cell is %T", s.Obj.Cells[s.Off+i]))
		}
		out[i] = t
	}
	return out
}

func (x *Exec) cellTerms(a Agg) []*Term {
	out := make([]*Term, len(a))
	for i, c := range a {
		out[i] = c.(*Term)
	}
	return out
}

func (x *Exec) anyBytes(v Value) []*Term {
	switch a := v.(type) {
	case SliceV:
		return x.sliceBytes(a)
	case StrV:
		return x.strBytes(a)
	}
	x.abort("unsupported", fmt.Sprintf("expected bytes, got %T", v))
	return nil
}

func (x *Exec) bytesToSlice(b []*Term, name string) SliceV {
	o := x.newObject(len(b), name)
	for i, t := range b {
		o.Cells[i] = t
	}
	return SliceV{Obj: o, Len: len(b), Cap: len(b)}
}

func bytesCompare(x *Exec, fv FuncV, a []Value) Value {
	p, q := x.anyBytes(a[0]), x.anyBytes(a[1])
	ts := x.ts
	n := min(len(p), len(q))
	// result for equal prefixes
	var tail int64
	switch {
	case len(p) < len(q):
		tail = -1
	case len(p) > len(q):
		tail = 1
	}
	r := ts.ConstI(64, tail)
	for i := n - 1; i >= 0; i-- {
		r = ts.Ite(ts.Eq(p[i], q[i]), r, ts.Ite(ts.ULt(p[i], q[i]), ts.ConstI(64, -1), ts.ConstI(64, 1)))
	}
	return r
}

func bytesIndexByte(x *Exec, fv FuncV, a []Value) Value {
	p := x.anyBytes(a[0])
	c := a[1].(*Term)
	ts := x.ts
	r := ts.ConstI(64, -1)
	for i := len(p) - 1; i >= 0; i-- {
		r = ts.Ite(ts.Eq(p[i], c), ts.ConstI(64, int64(i)), r)
	}
	return r
}

func bytesCount(x *Exec, fv FuncV, a []Value) Value {
	p := x.anyBytes(a[0])
	c := a[1].(*Term)
	ts := x.ts
	r := ts.ConstU(64, 0)
	for i := range p {
		r = ts.Add(r, ts.BoolToBV(ts.Eq(p[i], c), 64))
	}
	return r
}

// ---- bits helpers ----

func (x *Exec) bitLen(t *Term) *Term {
	ts := x.ts
	if t.IsConst() {
		return ts.ConstU(64, uint64(t.Val.BitLen()))
	}
	r := ts.ConstU(64, 0)
	for i := 0; i < t.W; i++ {
		bit := ts.Eq(ts.Extract(t, i, i), ts.ConstU(1, 1))
		r = ts.Ite(bit, ts.ConstU(64, uint64(i+1)), r)
	}
	return r
}

func (x *Exec) trailingZeros(t *Term) *Term {
	ts := x.ts
	if t.IsConst() {
		if t.Val.Sign() == 0 {
			return ts.ConstU(64, uint64(t.W))
		}
		return ts.ConstU(64, uint64(t.Val.TrailingZeroBits()))
	}
	r := ts.ConstU(64, uint64(t.W))
	for i := t.W - 1; i >= 0; i-- {
		bit := ts.Eq(ts.Extract(t, i, i), ts.ConstU(1, 1))
		r = ts.Ite(bit, ts.ConstU(64, uint64(i)), r)
	}
	return r
}

func (x *Exec) onesCount(t *Term) *Term {
	ts := x.ts
	if t.IsConst() {
		n := 0
		for i := 0; i < t.W; i++ {
			n += int(t.Val.Bit(i))
		}
		return ts.ConstU(64, uint64(n))
	}
	r := ts.ConstU(64, 0)
	for i := 0; i < t.W; i++ {
		r = ts.Add(r, ts.ZExt(ts.Extract(t, i, i), 64))
	}
	return r
}

func bitsMul64(x *Exec, fv FuncV, a []Value) Value {
	ts := x.ts
	p, q := a[0].(*Term), a[1].(*Term)
	if x.cfg.Params["mul_uf"] == 1 && !p.IsConst() && !q.IsConst() {
		// contract form: uninterpreted product with the documented facts
		if p.ID > q.ID {
			p, q = q, p
		}
		hi := ts.UF("mul64hi", 64, p, q)
		lo := ts.UF("mul64lo", 64, p, q)
		return Tuple{hi, lo}
	}
	m := ts.Mul(ts.ZExt(p, 128), ts.ZExt(q, 128))
	return Tuple{ts.Extract(m, 127, 64), ts.Extract(m, 63, 0)}
}

func bitsDiv64(x *Exec, fv FuncV, a []Value) Value {
	ts := x.ts
	hi, lo, y := a[0].(*Term), a[1].(*Term), a[2].(*Term)
	if x.branch(ts.Eq(y, ts.ConstU(64, 0))) {
		x.goPanic("div-zero", "bits.Div64: integer divide by zero")
	}
	if x.branch(ts.ULe(y, hi)) {
		x.goPanic("div-overflow", "bits.Div64: integer overflow")
	}
	if isZero(hi) {
		return Tuple{ts.UDiv(lo, y), ts.URem(lo, y)}
	}
	n := ts.Concat(hi, lo)
	y128 := ts.ZExt(y, 128)
	q := ts.UDiv(n, y128)
	r := ts.URem(n, y128)
	return Tuple{ts.Extract(q, 63, 0), ts.Extract(r, 63, 0)}
}

// ---- hash model ----

type hasherState struct {
	buf   []*Term
	dirty bool
}

func (x *Exec) newHasher() Value {
	return Iface{T: types.Typ[types.UnsafePointer], V: &Native{Kind: "hasher", Data: &hasherState{}}}
}

// hashBytes applies the ideal hash to a concrete-length byte string.
func (x *Exec) hashBytes(b []*Term) *Term {
	n := len(b)
	name := fmt.Sprintf("H_%d", n)
	if n == 0 {
		return x.ts.UF(name, 256)
	}
	return x.ts.UF(name, 256, x.ts.Concat(b...))
}

func (x *Exec) hashToAgg(h *Term) Agg {
	out := make(Agg, 32)
	for i := 0; i < 32; i++ {
		out[i] = x.ts.Extract(h, 255-8*i, 248-8*i)
	}
	return out
}

// hashAxioms returns the per-application axioms for the ideal hash.
func (x *Exec) ufAxioms(t *Term) []*Term {
	ts := x.ts
	if strings.HasPrefix(t.Name, "H_gen_") {
		return nil
	}
	if strings.HasPrefix(t.Name, "H_") || strings.HasPrefix(t.Name, "S256_") {
		var ax []*Term
		pre := "H"
		if t.Name[0] == 'S' {
			pre = "S256"
		}
		var n int
		fmt.Sscanf(t.Name[len(pre)+1:], "%d", &n)
		// injectivity and range disjointness are emitted pairwise by the solver
		// layer (see Solver.define); nothing per application here
		if pre == "H" && (n == 0 || t.Args[0].IsConst()) {
			var data []byte
			if n > 0 {
				data = t.Args[0].Val.FillBytes(make([]byte, n))
			}
			sum := blake2b.Sum256(data)
			ax = append(ax, ts.Eq(t, ts.Const(256, new(big.Int).SetBytes(sum[:]))))
		}
		return ax
	}
	if strings.HasPrefix(t.Name, "SIG_") {
		n := t.Args[1].W
		_ = n
		return nil
	}
	if t.Name == "mul64hi" || t.Name == "mul64lo" {
		return x.mulAxioms(t)
	}
	return nil
}

// mulAxioms: documented contract of the 64x64->128 product, instantiated per
// application (see DESIGN 1.4).
func (x *Exec) mulAxioms(t *Term) []*Term {
	ts := x.ts
	if t.Name != "mul64hi" {
		return nil
	}
	p, q := t.Args[0], t.Args[1]
	hi := t
	lo := ts.UF("mul64lo", 64, p, q)
	z := ts.ConstU(64, 0)
	one := ts.ConstU(64, 1)
	prod := ts.Concat(hi, lo)
	pz := ts.Eq(p, z)
	qz := ts.Eq(q, z)
	ax := []*Term{
		// zero iff a factor is zero
		ts.Eq(ts.Eq(prod, ts.ConstU(128, 0)), ts.Or(pz, qz)),
		// multiplication by one
		ts.Implies(ts.Eq(p, one), ts.Eq(prod, ts.ZExt(q, 128))),
		ts.Implies(ts.Eq(q, one), ts.Eq(prod, ts.ZExt(p, 128))),
		// product >= each factor when the other is nonzero
		ts.Implies(ts.Not(qz), ts.ULe(ts.ZExt(p, 128), prod)),
		ts.Implies(ts.Not(pz), ts.ULe(ts.ZExt(q, 128), prod)),
		// hi < min(p,q) (since p*q < 2^64 * min)
		ts.Implies(ts.Not(ts.Or(pz, qz)), ts.And(ts.ULt(hi, p), ts.ULt(hi, q))),
	}
	return ax
}

func (x *Exec) nativeInvoke(n *Native, method string, args []Value) Value {
	ts := x.ts
	switch n.Kind {
	case "hasher":
		h := n.Data.(*hasherState)
		switch method {
		case "Write":
			b := x.sliceBytes(x.sl(args[0]))
			h.buf = append(h.buf, b...)
			return Tuple{ts.ConstU(64, uint64(len(b))), Iface{}}
		case "Sum":
			pre := x.sl(args[0])
			sum := x.hashToAgg(x.hashBytes(h.buf))
			var cells []*Term
			if pre.Obj != nil {
				cells = x.sliceBytes(pre)
			}
			for _, c := range sum {
				cells = append(cells, c.(*Term))
			}
			// write in place if capacity allows (as the real Sum does with append)
			if pre.Obj != nil && pre.Cap >= len(cells) {
				for i, c := range cells {
					pre.Obj.Cells[pre.Off+i] = c
				}
				return SliceV{Obj: pre.Obj, Off: pre.Off, Len: len(cells), Cap: pre.Cap}
			}
			return x.bytesToSlice(cells, "hash.Sum")
		case "Reset":
			h.buf = nil
			h.dirty = false
			return nil
		case "Size":
			return ts.ConstU(64, 32)
		case "BlockSize":
			return ts.ConstU(64, 128)
		}
	case "wraperr":
		switch method {
		case "Error":
			return StrV{S: n.Data.(*wrapErr).tag}
		case "Unwrap":
			return n.Data.(*wrapErr).inner
		}
	case "error":
		switch method {
		case "Error":
			return StrV{S: n.Data.(string)}
		case "Unwrap":
			return Iface{}
		}
	}
	x.abort("unsupported", fmt.Sprintf("native %s method %s", n.Kind, method))
	return nil
}

func edVerify(x *Exec, fv FuncV, a []Value) Value {
	ts := x.ts
	pk := x.sliceBytes(x.sl(a[0]))
	msg := x.sliceBytes(x.sl(a[1]))
	sig := x.sliceBytes(x.sl(a[2]))
	if len(pk) != 32 {
		x.goPanic("ed25519", "ed25519: bad public key length")
	}
	if len(sig) != 64 {
		return ts.False
	}
	if len(msg) == 0 {
		x.abort("unsupported", "ed25519.Verify of empty message")
	}
	return x.sigOK(ts.Concat(pk...), ts.Concat(msg...), ts.Concat(sig...))
}

// sigOK is the ideal signature model: for each (key, message) there is exactly
// one valid signature SIG(pk,m), and a signature determines its key and
// message (axioms msgOf(SIG(pk,m)) = m, pkOf(SIG(pk,m)) = pk, added per
// application). Verification is sig == SIG(pk,m).
func (x *Exec) sigOK(pk, msg, sig *Term) *Term {
	ts := x.ts
	app := ts.UF(fmt.Sprintf("SIG_%d", msg.W/8), 512, pk, msg)
	return ts.Eq(sig, app)
}

// ---- errors ----

func (x *Exec) opaqueError(tag string) Value {
	return Iface{T: types.Typ[types.UnsafePointer], V: &Native{Kind: "error", Data: tag}}
}

type wrapErr struct {
	tag   string
	inner Iface
}

func fmtErrorf(x *Exec, fv FuncV, a []Value) Value {
	tag := x.siteTag("fmt.Errorf")
	format := ""
	if s, ok := a[0].(StrV); ok && s.Sym == nil {
		format = s.S
	}
	if strings.Contains(format, "%w") {
		// find the first error-typed argument
		va := x.sl(a[1])
		for i := 0; i < va.Len; i++ {
			if e, ok := va.Obj.Cells[va.Off+i].(Iface); ok && e.T != nil {
				if x.isErrorValue(e) {
					return Iface{T: types.Typ[types.UnsafePointer], V: &Native{Kind: "wraperr", Data: &wrapErr{tag: tag + ": " + format, inner: e}}}
				}
			}
		}
	}
	return x.opaqueError(tag + ": " + format)
}

func (x *Exec) isErrorValue(e Iface) bool {
	if n, ok := e.V.(*Native); ok {
		return n.Kind == "error" || n.Kind == "wraperr"
	}
	errT := types.Universe.Lookup("error").Type().Underlying().(*types.Interface)
	return types.Implements(e.T, errT)
}

func (x *Exec) unwrapErr(e Iface) Iface {
	if n, ok := e.V.(*Native); ok {
		if n.Kind == "wraperr" {
			return n.Data.(*wrapErr).inner
		}
		return Iface{}
	}
	// real error types with Unwrap method
	fn := x.prog.LookupMethod(e.T, nil, "Unwrap")
	if fn == nil {
		return Iface{}
	}
	if fn.Signature.Results().Len() != 1 {
		return Iface{}
	}
	r := x.call(FuncV{Fn: fn}, []Value{e.V}, nil)
	if i, ok := r.(Iface); ok {
		return i
	}
	return Iface{}
}

func errorsIs(x *Exec, fv FuncV, a []Value) Value {
	e := a[0].(Iface)
	target := a[1].(Iface)
	for e.T != nil {
		if x.valEq(e, target, nil).IsTrue() {
			return x.ts.True
		}
		e = x.unwrapErr(e)
	}
	return x.ts.Bool(target.T == nil && false)
}

func errorsAs(x *Exec, fv FuncV, a []Value) Value {
	e := a[0].(Iface)
	target := a[1].(Iface) // pointer to a variable of some type
	pt, ok := target.T.(*types.Pointer)
	if !ok {
		x.goPanic("errors.As", "errors.As: target must be a non-nil pointer")
	}
	want := pt.Elem()
	for e.T != nil {
		if _, isNative := e.V.(*Native); !isNative {
			if it, isI := want.Underlying().(*types.Interface); isI {
				if types.Implements(e.T, it) {
					x.store(target.V.(Ptr), want, e)
					return x.ts.True
				}
			} else if types.Identical(e.T, want) {
				x.store(target.V.(Ptr), want, e.V)
				return x.ts.True
			}
		}
		e = x.unwrapErr(e)
	}
	return x.ts.False
}

// ---- sync.Pool ----

func poolGet(x *Exec, fv FuncV, a []Value) Value {
	p := a[0].(Ptr)
	st := fv.Fn.Signature.Recv().Type().(*types.Pointer).Elem().Underlying().(*types.Struct)
	// find field New
	for i := 0; i < st.NumFields(); i++ {
		if st.Field(i).Name() == "New" {
			nf := p.Obj.Cells[p.Off+x.fieldOff(st, i)].(FuncV)
			if nf.Fn == nil {
				return Iface{}
			}
			return x.call(nf, nil, nil)
		}
	}
	x.abort("unsupported", "sync.Pool without New")
	return nil
}

func poolPut(x *Exec, fv FuncV, a []Value) Value {
	return nil
}

// ---- sort.Slice ----

func sortSlice(x *Exec, fv FuncV, a []Value) Value {
	iv := a[0].(Iface)
	s := x.sl(iv.V)
	less := a[1].(FuncV)
	et := iv.T.Underlying().(*types.Slice).Elem()
	ec := x.ncells(et)
	ts := x.ts
	lessAt := func(i, j int) bool {
		r := x.call(less, []Value{ts.ConstU(64, uint64(i)), ts.ConstU(64, uint64(j))}, nil)
		return x.branch(r.(*Term))
	}
	swap := func(i, j int) {
		tmp := append([]Value{}, s.Obj.Cells[s.Off+i*ec:s.Off+(i+1)*ec]...)
		copy(s.Obj.Cells[s.Off+i*ec:], s.Obj.Cells[s.Off+j*ec:s.Off+(j+1)*ec])
		copy(s.Obj.Cells[s.Off+j*ec:], tmp)
	}
	// insertion sort (stable)
	for i := 1; i < s.Len; i++ {
		for j := i; j > 0 && lessAt(j, j-1); j-- {
			swap(j, j-1)
		}
	}
	return nil
}

// ---- vh implementation ----

func vhBytes(x *Exec, fv FuncV, a []Value) Value {
	name := x.cstr(a[0])
	n := int(a[1].(*Term).Val.Int64())
	if n == 0 {
		return SliceV{}
	}
	v := x.fresh(name, 8*n)
	o := x.newObject(n, "vh.Bytes:"+name)
	for i := 0; i < n; i++ {
		o.Cells[i] = x.ts.Extract(v, 8*(n-i)-1, 8*(n-i-1))
	}
	return SliceV{Obj: o, Len: n, Cap: n}
}

func vhAssume(x *Exec, fv FuncV, a []Value) Value {
	c := a[0].(*Term)
	if c.IsFalse() {
		x.abort("assume-false", "assumption is false")
	}
	if v, ok := x.known(c); ok {
		if !v {
			x.abort("assume-false", "assumption contradicts path condition")
		}
		return nil
	}
	// feasibility is checked lazily: record and verify PC still sat
	x.addPC(c)
	r := x.check()
	if r == Unsat {
		x.abort("assume-false", "assumption infeasible")
	}
	if r == Unknown {
		x.pathUnknown = true
	}
	return nil
}

func vhAssert(x *Exec, fv FuncV, a []Value) Value {
	c := a[0].(*Term)
	msg := x.cstr(a[1])
	x.res.Obligations++
	if c.IsTrue() {
		x.res.Discharged++
		x.res.Structural++
		return nil
	}
	if v, ok := x.known(c); ok && v {
		x.res.Discharged++
		x.res.Structural++
		return nil
	}
	neg := x.ts.Not(c)
	key := fmt.Sprintf("%d|%v", neg.ID, x.decisions)
	x.qseen[key] = true
	r := x.check(neg)
	if len(x.res.Samples) < 4 {
		x.res.Samples = append(x.res.Samples, fmt.Sprintf("%s: assert %q path=%v pc=%d conj, obligation size %d nodes -> %s", x.harness, msg, x.decisions, len(x.pc), neg.Size(), r))
	}
	switch r {
	case Unsat:
		x.res.Discharged++
	case Sat:
		x.reportViolation("assert", msg, x.where(), neg)
	case Unknown:
		x.res.Incomplete = append(x.res.Incomplete, fmt.Sprintf("assert %q: solver unknown at %s", msg, x.where()))
	}
	// continue under the assertion
	x.addPC(c)
	return nil
}

func vhReach(x *Exec, fv FuncV, a []Value) Value {
	if x.pcUnchecked {
		// under lazy forking the path condition may be infeasible
		r := x.check()
		if r == Unsat {
			x.abort("infeasible", "path condition infeasible at Reach")
		}
		x.pcUnchecked = false
	}
	x.res.Reached[x.cstr(a[0])]++
	return nil
}

// ReachIf(cond, tag): the tag counts as reached when the path condition together
// with cond is satisfiable (sat only; unknown does not count). Does not fork.
var reachIfSeen sync.Map

func vhReachIf(x *Exec, fv FuncV, a []Value) Value {
	c := a[0].(*Term)
	if v, ok := x.known(c); ok {
		if v {
			return vhReach(x, fv, a[1:])
		}
		return nil
	}
	key := x.res.Name + "\x00" + x.cstr(a[1])
	if _, ok := reachIfSeen.Load(key); ok {
		// already witnessed (on this or another path); one witness suffices
		return nil
	}
	if x.check(c) == Sat {
		x.res.Reached[x.cstr(a[1])]++
		reachIfSeen.Store(key, true)
	}
	return nil
}

func vhChoice(x *Exec, fv FuncV, a []Value) Value {
	name := x.cstr(a[0])
	n := int(a[1].(*Term).Val.Int64())
	v := x.fresh(name, 64)
	x.addPC(x.ts.ULt(v, x.ts.ConstU(64, uint64(n))))
	i := x.concretize(v, n)
	return x.ts.ConstU(64, uint64(i))
}

func vhParam(x *Exec, fv FuncV, a []Value) Value {
	name := x.cstr(a[0])
	def := a[1].(*Term)
	if v, ok := x.cfg.Params[name]; ok {
		return x.ts.ConstI(64, int64(v))
	}
	return def
}

func vhAnd(x *Exec, fv FuncV, a []Value) Value {
	s := x.sl(a[0])
	var ts []*Term
	for i := 0; i < s.Len; i++ {
		ts = append(ts, s.Obj.Cells[s.Off+i].(*Term))
	}
	return x.ts.And(ts...)
}

func vhOr(x *Exec, fv FuncV, a []Value) Value {
	s := x.sl(a[0])
	var ts []*Term
	for i := 0; i < s.Len; i++ {
		ts = append(ts, s.Obj.Cells[s.Off+i].(*Term))
	}
	return x.ts.Or(ts...)
}

func vhPanicMsg(x *Exec, fv FuncV, a []Value) (ret Value) {
	f := a[0].(FuncV)
	depth := len(x.frames)
	defer func() {
		if r := recover(); r != nil {
			if p, ok := r.(goPanicSig); ok {
				x.frames = x.frames[:depth]
				ret = StrV{S: p.Msg}
				return
			}
			panic(r)
		}
	}()
	x.call(f, nil, nil)
	return StrV{S: ""}
}

func vhPanics(x *Exec, fv FuncV, a []Value) (ret Value) {
	f := a[0].(FuncV)
	depth := len(x.frames)
	defer func() {
		if r := recover(); r != nil {
			if _, ok := r.(goPanicSig); ok {
				x.frames = x.frames[:depth]
				ret = x.ts.True
				return
			}
			panic(r)
		}
	}()
	x.call(f, nil, nil)
	return x.ts.False
}

func vhTrackWrites(x *Exec, fv FuncV, a []Value) Value {
	x.trackWrites = a[0].(*Term).IsTrue()
	return nil
}

func vhSample(x *Exec, fv FuncV, a []Value) Value {
	return nil
}

// vhMarkCaller marks every object reachable from the argument as
// caller-owned (writes to it are reported while TrackWrites is on).
func vhMarkCaller(x *Exec, fv FuncV, a []Value) Value {
	seen := map[*Object]bool{}
	var walk func(v Value)
	walkObj := func(o *Object) {
		if o == nil || seen[o] {
			return
		}
		seen[o] = true
		o.Caller = true
		for _, c := range o.Cells {
			walk(c)
		}
	}
	walk = func(v Value) {
		switch t := v.(type) {
		case Ptr:
			walkObj(t.Obj)
		case SliceV:
			walkObj(t.Obj)
		case Iface:
			walk(t.V)
		case Agg:
			for _, c := range t {
				walk(c)
			}
		}
	}
	walk(a[0])
	return nil
}

// vhFill makes every scalar leaf reachable from *p symbolic. Slice lengths,
// pointer nil-ness and interface dynamic types are kept as the harness built
// them. Byte arrays become one wide variable.
func vhFill(x *Exec, fv FuncV, a []Value) Value {
	name := x.cstr(a[0])
	iv := a[1].(Iface)
	pt, ok := iv.T.Underlying().(*types.Pointer)
	if !ok {
		x.abort("unsupported", "vh.Fill needs a pointer")
	}
	x.fillAt(name, iv.V.(Ptr), pt.Elem())
	return nil
}

func isByte(t types.Type) bool {
	b, ok := t.Underlying().(*types.Basic)
	return ok && b.Kind() == types.Uint8
}

func isTimeType(t types.Type) bool {
	n, ok := t.(*types.Named)
	if ok && n.Obj().Pkg() != nil && n.Obj().Pkg().Path() == "time" && n.Obj().Name() == "Time" {
		return true
	}
	// named types defined as time.Time (e.g. PolicyTypeAfter)
	if st, ok := t.Underlying().(*types.Struct); ok && st.NumFields() == 3 && st.Field(0).Name() == "wall" && st.Field(1).Name() == "ext" && st.Field(2).Name() == "loc" {
		return true
	}
	return false
}

func (x *Exec) fillAt(name string, p Ptr, t types.Type) {
	ts := x.ts
	if isTimeType(t) {
		s := x.fresh(name, 64)
		// wire times are time.Unix(x, 0); keep them in a sane range so that
		// the internal second offset does not wrap
		x.addPC(ts.ULt(s, ts.ConstU(64, 1<<62)))
		var unix *ssa.Function
		for _, pk := range x.prog.AllPackages() {
			if pk.Pkg.Path() == "time" {
				unix = pk.Func("Unix")
			}
		}
		v := x.call(FuncV{Fn: unix}, []Value{s, ts.ConstU(64, 0)}, nil)
		x.store(p, t, v)
		return
	}
	switch u := t.Underlying().(type) {
	case *types.Basic:
		if w, _, ok := intWidth(u); ok {
			p.Obj.Cells[p.Off] = x.fresh(name, w)
			return
		}
		if u.Kind() == types.Bool {
			p.Obj.Cells[p.Off] = x.fresh(name, 0)
			return
		}
		if u.Kind() == types.String {
			s := p.Obj.Cells[p.Off].(StrV)
			if n := s.Len(); n > 0 {
				v := x.fresh(name, 8*n)
				b := make([]*Term, n)
				for i := range b {
					b[i] = ts.Extract(v, 8*(n-i)-1, 8*(n-i-1))
				}
				p.Obj.Cells[p.Off] = StrV{Sym: b}
			}
			return
		}
	case *types.Struct:
		off := p.Off
		for i := 0; i < u.NumFields(); i++ {
			ft := u.Field(i).Type()
			x.fillAt(name+"."+u.Field(i).Name(), Ptr{Obj: p.Obj, Off: off}, ft)
			off += x.ncells(ft)
		}
		return
	case *types.Array:
		n := int(u.Len())
		if n == 0 {
			return
		}
		if isByte(u.Elem()) {
			v := x.fresh(name, 8*n)
			for i := 0; i < n; i++ {
				p.Obj.Cells[p.Off+i] = ts.Extract(v, 8*(n-i)-1, 8*(n-i-1))
			}
			return
		}
		ec := x.ncells(u.Elem())
		for i := 0; i < n; i++ {
			x.fillAt(fmt.Sprintf("%s[%d]", name, i), Ptr{Obj: p.Obj, Off: p.Off + i*ec}, u.Elem())
		}
		return
	case *types.Slice:
		s := x.sl(p.Obj.Cells[p.Off])
		if s.Len == 0 {
			return
		}
		if isByte(u.Elem()) {
			v := x.fresh(name, 8*s.Len)
			for i := 0; i < s.Len; i++ {
				s.Obj.Cells[s.Off+i] = ts.Extract(v, 8*(s.Len-i)-1, 8*(s.Len-i-1))
			}
			return
		}
		ec := x.ncells(u.Elem())
		for i := 0; i < s.Len; i++ {
			x.fillAt(fmt.Sprintf("%s[%d]", name, i), Ptr{Obj: s.Obj, Off: s.Off + i*ec}, u.Elem())
		}
		return
	case *types.Pointer:
		q := p.Obj.Cells[p.Off].(Ptr)
		if q.Obj != nil {
			x.fillAt(name+".*", q, u.Elem())
		}
		return
	case *types.Interface:
		iv := p.Obj.Cells[p.Off].(Iface)
		if iv.T == nil {
			return
		}
		// value stored inline: fill a temporary and store back
		if _, isNative := iv.V.(*Native); isNative {
			return
		}
		if pp, ok := iv.V.(Ptr); ok {
			if pt, ok := iv.T.Underlying().(*types.Pointer); ok && pp.Obj != nil {
				x.fillAt(name+".(*)", pp, pt.Elem())
			}
			return
		}
		tmp := x.newObject(x.ncells(iv.T), "fill-iface")
		copy(tmp.Cells, x.cellsOf(iv.V, iv.T))
		x.fillAt(name+".("+types.TypeString(iv.T, func(*types.Package) string { return "" })+")", Ptr{Obj: tmp}, iv.T)
		p.Obj.Cells[p.Off] = Iface{T: iv.T, V: x.fromCells(tmp.Cells, iv.T)}
		return
	case *types.Map, *types.Signature, *types.Chan:
		return
	}
	x.abort("unsupported", fmt.Sprintf("vh.Fill of %v", t))
}

// vhEq: deep structural equality as a single term; nil and empty slices are
// equal; pointers are followed; times compare by their instant.
func vhEq(x *Exec, fv FuncV, a []Value) Value {
	ia, ib := a[0].(Iface), a[1].(Iface)
	if ia.T == nil || ib.T == nil {
		return x.ts.Bool(ia.T == nil && ib.T == nil)
	}
	if !types.Identical(ia.T, ib.T) {
		return x.ts.False
	}
	return x.deepEq(x.cellsOf(ia.V, ia.T), x.cellsOf(ib.V, ib.T), ia.T)
}

func (x *Exec) deepEq(a, b []Value, t types.Type) *Term {
	ts := x.ts
	if isTimeType(t) {
		// wall, ext: compare raw (wire times have wall == 0); ignore loc
		return ts.And(x.valEq(a[0], b[0], nil), x.valEq(a[1], b[1], nil))
	}
	switch u := t.Underlying().(type) {
	case *types.Struct:
		var conj []*Term
		off := 0
		for i := 0; i < u.NumFields(); i++ {
			ft := u.Field(i).Type()
			n := x.ncells(ft)
			conj = append(conj, x.deepEq(a[off:off+n], b[off:off+n], ft))
			off += n
		}
		return ts.And(conj...)
	case *types.Array:
		n := int(u.Len())
		if n == 0 {
			return ts.True
		}
		ec := x.ncells(u.Elem())
		if ec == 1 {
			if _, ok := a[0].(*Term); ok {
				return x.cellsEq(a, b)
			}
		}
		var conj []*Term
		for i := 0; i < n; i++ {
			conj = append(conj, x.deepEq(a[i*ec:(i+1)*ec], b[i*ec:(i+1)*ec], u.Elem()))
		}
		return ts.And(conj...)
	case *types.Slice:
		sa, sb := x.sl(a[0]), x.sl(b[0])
		if sa.Len != sb.Len {
			return ts.False
		}
		if sa.Len == 0 {
			return ts.True
		}
		ec := x.ncells(u.Elem())
		ca := sa.Obj.Cells[sa.Off : sa.Off+sa.Len*ec]
		cb := sb.Obj.Cells[sb.Off : sb.Off+sb.Len*ec]
		if ec == 1 {
			if _, ok := ca[0].(*Term); ok {
				return x.cellsEq(ca, cb)
			}
		}
		var conj []*Term
		for i := 0; i < sa.Len; i++ {
			conj = append(conj, x.deepEq(ca[i*ec:(i+1)*ec], cb[i*ec:(i+1)*ec], u.Elem()))
		}
		return ts.And(conj...)
	case *types.Pointer:
		pa, pb := a[0].(Ptr), b[0].(Ptr)
		if pa.Obj == nil || pb.Obj == nil {
			return ts.Bool(pa.Obj == nil && pb.Obj == nil)
		}
		n := x.ncells(u.Elem())
		return x.deepEq(pa.Obj.Cells[pa.Off:pa.Off+n], pb.Obj.Cells[pb.Off:pb.Off+n], u.Elem())
	case *types.Interface:
		ia, ib := a[0].(Iface), b[0].(Iface)
		if ia.T == nil || ib.T == nil {
			return ts.Bool(ia.T == nil && ib.T == nil)
		}
		if !types.Identical(ia.T, ib.T) {
			return ts.False
		}
		if _, ok := ia.V.(*Native); ok {
			return x.valEq(ia.V, ib.V, nil)
		}
		return x.deepEq(x.cellsOf(ia.V, ia.T), x.cellsOf(ib.V, ib.T), ia.T)
	case *types.Map:
		x.abort("unsupported", "vh.Eq on map")
	}
	return x.valEq(a[0], b[0], t)
}

func init() {
	// summaries used by the validator harnesses (each is a stated cut)
	intrinsics["(go.sia.tech/core/consensus.State).TransactionWeight"] = func(x *Exec, fv FuncV, a []Value) Value {
		if x.cfg.Params["weight_uf"] != 1 {
			return x.callBody(fv, a)
		}
		x.weightCtr++
		return x.fresh(fmt.Sprintf("txweight#%d", x.weightCtr), 64)
	}
	intrinsics["(go.sia.tech/core/consensus.State).V2TransactionWeight"] = intrinsics["(go.sia.tech/core/consensus.State).TransactionWeight"]
	intrinsics["(go.sia.tech/core/types.V1Currency).EncodeTo"] = func(x *Exec, fv FuncV, a []Value) Value {
		if x.cfg.Params["v1cur_fixed"] != 1 {
			return x.callBody(fv, a)
		}
		// fixed-width injective code: 0x10 ‖ hi (8, big endian) ‖ lo (8)
		cur := a[0].(Agg) // Lo, Hi
		lo, hi := cur[0].(*Term), cur[1].(*Term)
		cells := []*Term{x.ts.ConstU(8, 16)}
		for i := 7; i >= 0; i-- {
			cells = append(cells, x.ts.Extract(hi, 8*i+7, 8*i))
		}
		for i := 7; i >= 0; i-- {
			cells = append(cells, x.ts.Extract(lo, 8*i+7, 8*i))
		}
		buf := x.bytesToSlice(cells, "v1cur")
		w := fv.Fn.Prog.ImportedPackage("go.sia.tech/core/types").Type("Encoder")
		wr := x.prog.LookupMethod(types.NewPointer(w.Type()), w.Package().Pkg, "Write")
		x.call(FuncV{Fn: wr}, []Value{a[1], buf}, nil)
		return nil
	}
	intrinsics["(go.sia.tech/core/consensus.State).V2FileContractTax"] = func(x *Exec, fv FuncV, a []Value) Value {
		if x.cfg.Params["tax_uf"] != 1 {
			return x.callBody(fv, a)
		}
		// summary: the real Add (with its overflow panic) followed by an
		// uninterpreted tax(sum) <= sum instead of the division by 25
		fc := a[1].(Agg)
		ft := fv.Fn.Signature.Params().At(0).Type().Underlying().(*types.Struct)
		off := 0
		var r, h Agg
		for i := 0; i < ft.NumFields(); i++ {
			n := x.ncells(ft.Field(i).Type())
			if ft.Field(i).Name() == "RenterOutput" {
				r = fc[off : off+2]
			}
			if ft.Field(i).Name() == "HostOutput" {
				h = fc[off : off+2]
			}
			off += n
		}
		cur := x.prog.ImportedPackage("go.sia.tech/core/types").Type("Currency")
		add := x.prog.LookupMethod(cur.Type(), cur.Package().Pkg, "Add")
		sum := x.call(FuncV{Fn: add}, []Value{Agg{r[0], r[1]}, Agg{h[0], h[1]}}, nil).(Agg)
		s128 := x.ts.Concat(sum[1].(*Term), sum[0].(*Term))
		tax := x.ts.UF("v2tax", 128, s128)
		x.addPC(x.ts.ULe(tax, s128))
		return Agg{x.ts.Extract(tax, 63, 0), x.ts.Extract(tax, 127, 64)}
	}
	intrinsics["(go.sia.tech/core/consensus.State).StorageProofLeafIndex"] = func(x *Exec, fv FuncV, a []Value) Value {
		if x.cfg.Params["spidx_uf"] != 1 {
			return x.callBody(fv, a)
		}
		// summary: an arbitrary index below the number of 64-byte leaves (0 for an empty file)
		fs := a[1].(*Term)
		ts := x.ts
		nl := ts.Add(ts.LShr(fs, ts.ConstU(64, 6)), ts.BoolToBV(ts.Not(ts.Eq(ts.Extract(fs, 5, 0), ts.ConstU(6, 0))), 64))
		// the same function of (filesize, window ID, contract ID) wherever it is called
		var key []*Term
		var flat func(v Value)
		flat = func(v Value) {
			switch t := v.(type) {
			case *Term:
				key = append(key, t)
			case Agg:
				for _, e := range t {
					flat(e)
				}
			}
		}
		flat(a[2])
		flat(a[3])
		r := ts.UF("spleafindex", 64, fs, ts.Concat(key...))
		x.addPC(ts.Ite(ts.Eq(nl, ts.ConstU(64, 0)), ts.Eq(r, ts.ConstU(64, 0)), ts.ULt(r, nl)))
		return r
	}
	intrinsics["(go.sia.tech/core/consensus.State).FileContractTax"] = func(x *Exec, fv FuncV, a []Value) Value {
		if x.cfg.Params["tax_uf"] != 1 {
			return x.callBody(fv, a)
		}
		// uninterpreted tax(payout, pre/post tax-hardfork); facts: tax <= payout
		st := a[0].(Agg)
		_ = st
		fc := a[1].(Agg)
		// FileContract.Payout is the last-but-... field: locate by type layout
		ft := fv.Fn.Signature.Params().At(0).Type().Underlying().(*types.Struct)
		off := 0
		var payLo, payHi *Term
		for i := 0; i < ft.NumFields(); i++ {
			if ft.Field(i).Name() == "Payout" {
				payLo, payHi = fc[off].(*Term), fc[off+1].(*Term)
			}
			off += x.ncells(ft.Field(i).Type())
		}
		pay := x.ts.Concat(payHi, payLo)
		// era: childHeight < HardforkTax.Height (evaluated by the real helper functions is overkill; keep symbolic flag)
		tax := x.ts.UF("v1tax", 128, pay)
		x.addPC(x.ts.ULe(tax, pay))
		return Agg{x.ts.Extract(tax, 63, 0), x.ts.Extract(tax, 127, 64)}
	}
	intrinsics[vhPath+".NoPanic"] = func(x *Exec, fv FuncV, a []Value) Value { x.cfg.NoPanic = true; return nil }
}
