package main

import (
	"fmt"
	"go/types"
)

type shaper struct {
	fn FuncV
	t  types.Type
}

func init() {
	intrinsics[vhPath+".RegisterShaper"] = func(x *Exec, fv FuncV, a []Value) Value {
		iv := a[0].(Iface)
		sig, ok := iv.T.Underlying().(*types.Signature)
		if !ok || sig.Params().Len() != 2 {
			x.abort("unsupported", "RegisterShaper needs func(*T, int)")
		}
		pt := sig.Params().At(0).Type().Underlying().(*types.Pointer)
		for _, s := range x.shapers {
			if types.Identical(s.t, pt.Elem()) {
				return nil
			}
		}
		x.shapers = append(x.shapers, shaper{fn: iv.V.(FuncV), t: pt.Elem()})
		return nil
	}
	intrinsics[vhPath+".Shape"] = func(x *Exec, fv FuncV, a []Value) Value {
		iv := a[0].(Iface)
		pt, ok := iv.T.Underlying().(*types.Pointer)
		if !ok {
			x.abort("unsupported", "vh.Shape needs a pointer")
		}
		n := int(a[1].(*Term).Val.Int64())
		x.shapeAt(iv.V.(Ptr), pt.Elem(), n, true)
		return nil
	}
}

func (x *Exec) shapeAt(p Ptr, t types.Type, n int, top bool) {
	if isTimeType(t) {
		return
	}
	{
		for _, s := range x.shapers {
			if types.Identical(s.t, t) {
				x.call(s.fn, []Value{p, x.ts.ConstU(64, uint64(n))}, nil)
				return
			}
		}
	}
	switch u := t.Underlying().(type) {
	case *types.Struct:
		off := p.Off
		for i := 0; i < u.NumFields(); i++ {
			ft := u.Field(i).Type()
			x.shapeAt(Ptr{Obj: p.Obj, Off: off}, ft, n, false)
			off += x.ncells(ft)
		}
	case *types.Array:
		if isByte(u.Elem()) {
			return
		}
		ec := x.ncells(u.Elem())
		for i := 0; i < int(u.Len()); i++ {
			x.shapeAt(Ptr{Obj: p.Obj, Off: p.Off + i*ec}, u.Elem(), n, false)
		}
	case *types.Slice:
		if n == 0 {
			p.Obj.Cells[p.Off] = SliceV{}
			return
		}
		s := x.newSlice(u.Elem(), n, n)
		s.Obj.Name = "shape"
		p.Obj.Cells[p.Off] = s
		if isByte(u.Elem()) {
			return
		}
		ec := x.ncells(u.Elem())
		for i := 0; i < n; i++ {
			x.shapeAt(Ptr{Obj: s.Obj, Off: i * ec}, u.Elem(), n, false)
		}
	case *types.Pointer:
		if x.cfg.Params["ptrnil"] == 1 {
			p.Obj.Cells[p.Off] = Ptr{}
			return
		}
		et := u.Elem()
		o := x.newObject(x.ncells(et), "shape-ptr")
		copy(o.Cells, x.cellsOf(x.zero(et), et))
		p.Obj.Cells[p.Off] = Ptr{Obj: o}
		x.shapeAt(Ptr{Obj: o}, et, n, false)
	case *types.Basic:
		if u.Kind() == types.String && n > 0 {
			b := make([]byte, n)
			p.Obj.Cells[p.Off] = StrV{S: string(b)}
		}
	case *types.Interface, *types.Map, *types.Signature, *types.Chan:
	default:
		x.abort("unsupported", fmt.Sprintf("vh.Shape of %v", t))
	}
}

func init() {
	intrinsics[vhPath+".ForEach"] = func(x *Exec, fv FuncV, a []Value) Value {
		iv := a[0].(Iface)
		pt, ok := iv.T.Underlying().(*types.Pointer)
		if !ok {
			x.abort("unsupported", "vh.ForEach needs a pointer")
		}
		fi := a[1].(Iface)
		sig, ok := fi.T.Underlying().(*types.Signature)
		if !ok || sig.Params().Len() != 1 {
			x.abort("unsupported", "vh.ForEach needs func(*T)")
		}
		want := sig.Params().At(0).Type().Underlying().(*types.Pointer).Elem()
		x.forEach(iv.V.(Ptr), pt.Elem(), want, fi.V.(FuncV))
		return nil
	}
}

func (x *Exec) forEach(p Ptr, t, want types.Type, f FuncV) {
	if types.Identical(t, want) {
		x.call(f, []Value{p}, nil)
		return
	}
	if isTimeType(t) {
		return
	}
	switch u := t.Underlying().(type) {
	case *types.Struct:
		off := p.Off
		for i := 0; i < u.NumFields(); i++ {
			ft := u.Field(i).Type()
			x.forEach(Ptr{Obj: p.Obj, Off: off}, ft, want, f)
			off += x.ncells(ft)
		}
	case *types.Array:
		if isByte(u.Elem()) {
			return
		}
		ec := x.ncells(u.Elem())
		for i := 0; i < int(u.Len()); i++ {
			x.forEach(Ptr{Obj: p.Obj, Off: p.Off + i*ec}, u.Elem(), want, f)
		}
	case *types.Slice:
		s := x.sl(p.Obj.Cells[p.Off])
		if isByte(u.Elem()) {
			return
		}
		ec := x.ncells(u.Elem())
		for i := 0; i < s.Len; i++ {
			x.forEach(Ptr{Obj: s.Obj, Off: s.Off + i*ec}, u.Elem(), want, f)
		}
	case *types.Pointer:
		q := p.Obj.Cells[p.Off].(Ptr)
		if q.Obj != nil {
			x.forEach(q, u.Elem(), want, f)
		}
	case *types.Interface:
		iv := p.Obj.Cells[p.Off].(Iface)
		if iv.T == nil {
			return
		}
		if _, isNative := iv.V.(*Native); isNative {
			return
		}
		if pp, ok := iv.V.(Ptr); ok {
			if pt, ok := iv.T.Underlying().(*types.Pointer); ok && pp.Obj != nil {
				x.forEach(pp, pt.Elem(), want, f)
			}
			return
		}
		tmp := x.newObject(x.ncells(iv.T), "foreach-iface")
		copy(tmp.Cells, x.cellsOf(iv.V, iv.T))
		x.forEach(Ptr{Obj: tmp}, iv.T, want, f)
		p.Obj.Cells[p.Off] = Iface{T: iv.T, V: x.fromCells(tmp.Cells, iv.T)}
	}
}
