package main

// 128-bit lifting of types.Currency arithmetic: the limb-wise bits.Add64 /
// bits.Sub64 chains of AddWithOverflow, SubWithUnderflow and Cmp are replaced
// by their exact 128-bit meaning (a single 129-bit addition / subtraction,
// a 128-bit comparison). The limb code itself is checked against this meaning
// in C15; here the lifting keeps sums of currencies as single terms so that
// the integer rendering of a query sees plain additions.

func cur128(x *Exec, v Value) *Term {
	a := v.(Agg)
	return x.ts.Concat(a[1].(*Term), a[0].(*Term))
}

func curAgg(x *Exec, t *Term) Agg {
	return Agg{x.ts.Extract(t, 63, 0), x.ts.Extract(t, 127, 64)}
}

func init() {
	const T = "(go.sia.tech/core/types.Currency)."
	intrinsics[T+"AddWithOverflow"] = func(x *Exec, fv FuncV, a []Value) Value {
		if x.cfg.Params["cur_lift"] != 1 {
			return x.callBody(fv, a)
		}
		ts := x.ts
		s := ts.Add(ts.ZExt(cur128(x, a[0]), 129), ts.ZExt(cur128(x, a[1]), 129))
		return Tuple{curAgg(x, ts.Extract(s, 127, 0)), ts.Eq(ts.Extract(s, 128, 128), ts.ConstU(1, 1))}
	}
	intrinsics[T+"SubWithUnderflow"] = func(x *Exec, fv FuncV, a []Value) Value {
		if x.cfg.Params["cur_lift"] != 1 {
			return x.callBody(fv, a)
		}
		ts := x.ts
		c, v := cur128(x, a[0]), cur128(x, a[1])
		d := ts.Sub(c, v)
		return Tuple{curAgg(x, d), ts.ULt(c, v)}
	}
	intrinsics[T+"Cmp"] = func(x *Exec, fv FuncV, a []Value) Value {
		if x.cfg.Params["cur_lift"] != 1 {
			return x.callBody(fv, a)
		}
		ts := x.ts
		c, v := cur128(x, a[0]), cur128(x, a[1])
		return ts.Ite(ts.Eq(c, v), ts.ConstU(64, 0), ts.Ite(ts.ULt(c, v), ts.ConstI(64, -1), ts.ConstU(64, 1)))
	}
	// cur_lift_mul: Mul64WithOverflow / quoRem64 as single wide operations (their
	// limb code against this meaning: C15 for Mul64; quoRem64 is the schoolbook
	// two-step division by a 64-bit divisor, stated as an assumption where used)
	intrinsics[T+"Mul64WithOverflow"] = func(x *Exec, fv FuncV, a []Value) Value {
		if x.cfg.Params["cur_lift_mul"] != 1 {
			return x.callBody(fv, a)
		}
		ts := x.ts
		c, v := cur128(x, a[0]), a[1].(*Term)
		var p *Term
		if x.cfg.Params["mul_uf"] == 1 && !c.IsConst() && !v.IsConst() {
			// symbolic x symbolic: an uninterpreted 192-bit product (the identities
			// checked with it do not depend on its value)
			p = ts.UF("curmul", 192, c, v)
		} else {
			p = ts.Mul(ts.ZExt(c, 192), ts.ZExt(v, 192))
		}
		return Tuple{curAgg(x, ts.Extract(p, 127, 0)), ts.Not(ts.Eq(ts.Extract(p, 191, 128), ts.ConstU(64, 0)))}
	}
	intrinsics[T+"quoRem64"] = func(x *Exec, fv FuncV, a []Value) Value {
		if x.cfg.Params["cur_lift_mul"] != 1 {
			return x.callBody(fv, a)
		}
		ts := x.ts
		v := a[1].(*Term)
		if x.branch(ts.Eq(v, ts.ConstU(64, 0))) {
			x.goPanic("div-zero", "integer divide by zero")
		}
		c, d := cur128(x, a[0]), ts.ZExt(v, 128)
		return Tuple{curAgg(x, ts.UDiv(c, d)), ts.Extract(ts.URem(c, d), 63, 0)}
	}
}
