package consensus

import (
	"go.sia.tech/core/internal/vh"
	"go.sia.tech/core/types"
)

// ---- independent statement of the v2 contract rules ----

func vhCurAdd(a, b types.Currency) (types.Currency, bool) { return a.AddWithOverflow(b) }

// vhSpecRevision: what an accepted revision `rev` of the current contract
// `cur` must satisfy in the child of state s.
func vhSpecRevision(s State, cur, rev types.V2FileContract) bool {
	h := s.Index.Height + 1
	cs, o1 := vhCurAdd(cur.RenterOutput.Value, cur.HostOutput.Value)
	rs, o2 := vhCurAdd(rev.RenterOutput.Value, rev.HostOutput.Value)
	ok := vh.And(!o1, !o2, cs == rs, // total value fixed
		rev.RevisionNumber > cur.RevisionNumber,
		rev.Capacity >= cur.Capacity, rev.Filesize <= rev.Capacity,
		rev.MissedHostValue.Cmp(cur.MissedHostValue) <= 0, // host's missed value never raised
		rev.TotalCollateral == cur.TotalCollateral,
		cur.ProofHeight >= h, // not after the proof window opened
		rev.ProofHeight >= h, rev.ExpirationHeight > rev.ProofHeight)
	if h >= s.Network.HardforkV2.EphemeralOutputHeight {
		ok = vh.And(ok, rev.MissedHostValue.Cmp(rev.HostOutput.Value) <= 0)
	}
	return ok
}

// vhSignedBy: both signatures of fc verify under the given keys
func vhSignedBy(s State, fc types.V2FileContract, renter, host types.PublicKey) bool {
	h := s.ContractSigHash(fc)
	return vh.And(vh.SigOK(renter, h, fc.RenterSignature), vh.SigOK(host, h, fc.HostSignature))
}

func vhRevTxn(name string, parent types.V2FileContractElement) types.V2Transaction {
	var t types.V2Transaction
	t.FileContractRevisions = make([]types.V2FileContractRevision, 1)
	vh.Fill(name, &t.FileContractRevisions[0].Revision)
	t.FileContractRevisions[0].Parent = parent
	return t
}

func vhGenuineContract(name string, s State) types.V2FileContractElement {
	var e types.V2FileContractElement
	vh.Fill(name, &e)
	vhProof(name+".proof", &e.StateElement, 1)
	e.ID = vh.GenuineID(name + ".fc0")
	fc := e.V2FileContract
	// invariant of contracts a valid history contains
	vh.Assume(vh.And(fc.RenterOutput.Value.Hi < 1<<56, fc.HostOutput.Value.Hi < 1<<56,
		fc.MissedHostValue.Cmp(fc.HostOutput.Value) <= 0, fc.TotalCollateral.Cmp(fc.HostOutput.Value) <= 0, fc.Filesize <= fc.Capacity))
	return e
}

// Two revisions of one contract in one block (separate transactions, both
// carrying the accumulator version as parent): the second is judged against
// the first, and must be signed by the keys the first one set.
func VH_SEQ_V2ReviseRevise() {
	_, s := vhWorld("w")
	vh.Assume(s.childHeight() >= s.Network.HardforkV2.AllowHeight)
	parent := vhGenuineContract("c", s)
	ms := NewMidState(s)
	t1 := vhRevTxn("r1", parent)
	if err := ValidateV2Transaction(ms, t1); err != nil {
		return
	}
	r1 := t1.FileContractRevisions[0].Revision
	vh.Assert(vhSpecRevision(s, parent.V2FileContract, r1), "accepted revision violates the revision rules (vs parent)")
	vh.Assert(vhSignedBy(s, r1, parent.V2FileContract.RenterPublicKey, parent.V2FileContract.HostPublicKey), "accepted revision not signed by the contract's current keys")
	ms.ApplyV2Transaction(t1)
	vh.Reach("first-accepted")
	// the rules are not stricter than stated: acceptance exactly at each bound
	vh.ReachIf(parent.V2FileContract.ProofHeight == s.childHeight(), "revised-at-proof-height")
	vh.ReachIf(r1.ProofHeight == s.childHeight(), "new-proof-height-at-bound")
	vh.ReachIf(r1.ExpirationHeight == r1.ProofHeight+1, "minimal-window")
	vh.ReachIf(r1.RevisionNumber == parent.V2FileContract.RevisionNumber+1, "revision-number-plus-one")
	vh.ReachIf(r1.MissedHostValue == parent.V2FileContract.MissedHostValue, "missed-host-value-kept")
	t2 := vhRevTxn("r2", parent)
	if err := ValidateV2Transaction(ms, t2); err != nil {
		vh.Reach("second-rejected")
		return
	}
	r2 := t2.FileContractRevisions[0].Revision
	vh.Assert(vhSpecRevision(s, r1, r2), "second in-block revision violates the revision rules relative to the first")
	vh.Assert(vhSignedBy(s, r2, r1.RenterPublicKey, r1.HostPublicKey), "second in-block revision not signed by the keys set by the first")
	vh.Reach("second-accepted")
}

func vhResTxn(name string, parent types.V2FileContractElement, kind int) types.V2Transaction {
	var t types.V2Transaction
	t.FileContractResolutions = make([]types.V2FileContractResolution, 1)
	switch kind {
	case 0:
		t.FileContractResolutions[0].Resolution = new(types.V2FileContractRenewal)
	case 1:
		sp := new(types.V2StorageProof)
		sp.Proof = make([]types.Hash256, 1)
		t.FileContractResolutions[0].Resolution = sp
	case 2:
		t.FileContractResolutions[0].Resolution = new(types.V2FileContractExpiration)
	}
	vh.Fill(name, &t.FileContractResolutions[0].Resolution)
	if sp, ok := t.FileContractResolutions[0].Resolution.(*types.V2StorageProof); ok {
		vhProof(name+".index.proof", &sp.ProofIndex.StateElement, 2)
		sp.ProofIndex.ID = vh.GenuineID(name + ".cie0")
	}
	t.FileContractResolutions[0].Parent = parent
	return t
}

// revise -> resolve -> any further use of the contract in the same block
func VH_SEQ_V2ResolveOnce() {
	_, s := vhWorld("w")
	vh.Assume(s.childHeight() >= s.Network.HardforkV2.AllowHeight)
	parent := vhGenuineContract("c", s)
	ms := NewMidState(s)
	if vh.Choice("revise-first", 2) == 1 {
		t0 := vhRevTxn("r0", parent)
		if err := ValidateV2Transaction(ms, t0); err != nil {
			return
		}
		ms.ApplyV2Transaction(t0)
		vh.Reach("revised")
	}
	k1 := vh.Choice("kind1", 3)
	t1 := vhResTxn("res1", parent, k1)
	if err := ValidateV2Transaction(ms, t1); err != nil {
		return
	}
	ms.ApplyV2Transaction(t1)
	vh.Reach("resolved")
	// second use: another resolution or a revision
	var t2 types.V2Transaction
	if vh.Choice("second", 2) == 0 {
		t2 = vhResTxn("res2", parent, vh.Choice("kind2", 3))
	} else {
		t2 = vhRevTxn("rev2", parent)
	}
	err := ValidateV2Transaction(ms, t2)
	vh.Assert(err != nil, "contract used again after it was resolved in the same block")
	vh.Reach("second-rejected")
}

// two uses of one contract inside ONE transaction are rejected
func VH_SEQ_V2SameTxnDoubleUse() {
	_, s := vhWorld("w")
	vh.Assume(s.childHeight() >= s.Network.HardforkV2.AllowHeight)
	parent := vhGenuineContract("c", s)
	ms := NewMidState(s)
	var t types.V2Transaction
	switch vh.Choice("shape", 3) {
	case 0: // two revisions
		a, b := vhRevTxn("a", parent), vhRevTxn("b", parent)
		t.FileContractRevisions = append(a.FileContractRevisions, b.FileContractRevisions...)
	case 1: // revision + resolution
		a, b := vhRevTxn("a", parent), vhResTxn("b", parent, vh.Choice("kind", 3))
		t.FileContractRevisions = a.FileContractRevisions
		t.FileContractResolutions = b.FileContractResolutions
	case 2: // two resolutions
		a, b := vhResTxn("a", parent, vh.Choice("kinda", 3)), vhResTxn("b", parent, vh.Choice("kindb", 3))
		t.FileContractResolutions = append(a.FileContractResolutions, b.FileContractResolutions...)
	}
	vh.Assert(ValidateV2Transaction(ms, t) != nil, "one transaction uses the same contract twice")
	vh.Reach("end")
}

// resolution creates exactly the outputs the kind prescribes, delayed by the maturity period
func VH_SEQ_V2ResolutionOutputs() {
	_, s := vhWorld("w")
	vh.Assume(s.childHeight() >= s.Network.HardforkV2.AllowHeight)
	parent := vhGenuineContract("c", s)
	ms := NewMidState(s)
	k := vh.Choice("kind", 3)
	t := vhResTxn("res", parent, k)
	if err := ValidateV2Transaction(ms, t); err != nil {
		return
	}
	ms.ApplyV2Transaction(t)
	fc := parent.V2FileContract
	var renter, host types.SiacoinOutput
	switch k {
	case 0:
		r := t.FileContractResolutions[0].Resolution.(*types.V2FileContractRenewal)
		renter, host = r.FinalRenterOutput, r.FinalHostOutput
		// final outputs + rollovers == the contract's value
		a, o1 := vhCurAdd(r.FinalRenterOutput.Value, r.RenterRollover)
		b, o2 := vhCurAdd(r.FinalHostOutput.Value, r.HostRollover)
		tot, o3 := vhCurAdd(a, b)
		old, o4 := vhCurAdd(fc.RenterOutput.Value, fc.HostOutput.Value)
		vh.Assert(vh.And(!o1, !o2, !o3, !o4, tot == old), "renewal does not split the old contract's value exactly")
	case 1:
		renter, host = fc.RenterOutput, fc.HostOutput
		vh.Assert(s.childHeight() >= fc.ProofHeight, "storage proof accepted before the proof height")
		vh.ReachIf(s.childHeight() == fc.ProofHeight, "proof-at-bound")
	case 2:
		renter, host = fc.RenterOutput, types.SiacoinOutput{Value: fc.MissedHostValue, Address: fc.HostOutput.Address}
		vh.Assert(s.childHeight() > fc.ExpirationHeight, "expiration accepted at or before the expiration height")
		vh.ReachIf(s.childHeight() == fc.ExpirationHeight+1, "expiry-at-bound")
	}
	found := 0
	for _, d := range ms.sces {
		if d.SiacoinElement.ID == parent.ID.V2RenterOutputID() {
			vh.Assert(vh.And(d.Created, vh.Eq(d.SiacoinElement.SiacoinOutput, renter), d.SiacoinElement.MaturityHeight == s.MaturityHeight()), "renter output of the resolution is wrong")
			found++
		}
		if d.SiacoinElement.ID == parent.ID.V2HostOutputID() {
			vh.Assert(vh.And(d.Created, vh.Eq(d.SiacoinElement.SiacoinOutput, host), d.SiacoinElement.MaturityHeight == s.MaturityHeight()), "host output of the resolution is wrong")
			found++
		}
	}
	vh.Assert(found == 2, "resolution did not create exactly the renter and host outputs")
	vh.Reach("end")
}

// height / time locks of v2 spend policies flip exactly at their bound
func VH_SEQ_V2PolicyLocks() {
	_, s := vhWorld("w")
	vh.Assume(s.childHeight() >= s.Network.HardforkV2.AllowHeight)
	var t types.V2Transaction
	t.SiacoinInputs = make([]types.V2SiacoinInput, 1)
	t.SiacoinOutputs = make([]types.SiacoinOutput, 1)
	vh.Fill("t", &t)
	in := &t.SiacoinInputs[0]
	vhProof("in.proof", &in.Parent.StateElement, 0)
	in.Parent.ID = vh.GenuineID("in.sc0")
	vh.Assume(in.Parent.SiacoinOutput.Value.Hi < 1<<56)
	lock := vh.U64("lock")
	kind := vh.Choice("kind", 2)
	switch kind {
	case 0: // thresh(2, [above(lock), pk])
		var pk types.PublicKey
		vh.Fill("pk", &pk)
		in.SatisfiedPolicy.Policy = types.PolicyThreshold(2, []types.SpendPolicy{types.PolicyAbove(lock), types.PolicyPublicKey(pk)})
		in.SatisfiedPolicy.Signatures = make([]types.Signature, 1)
	case 1: // legacy unlock conditions with a timelock
		uc := types.UnlockConditions{Timelock: lock, SignaturesRequired: 1, PublicKeys: []types.UnlockKey{{Algorithm: types.SpecifierEd25519, Key: vh.Bytes("uckey", 32)}}}
		in.SatisfiedPolicy.Policy = types.SpendPolicy{Type: types.PolicyTypeUnlockConditions(uc)}
		in.SatisfiedPolicy.Signatures = make([]types.Signature, 1)
	}
	vh.Fill("sigs", &in.SatisfiedPolicy.Signatures)
	ms := NewMidState(s)
	err := ValidateV2Transaction(ms, t)
	// v2 policies see the height of the parent state (the tip), not the child
	vh.Assert(vh.Implies(err == nil, s.Index.Height >= lock), "policy height lock satisfied before its height")
	vh.Assert(vh.Implies(err == nil, in.Parent.MaturityHeight <= s.childHeight()), "immature output spent")
	if err == nil {
		vh.Reach("accepted")
		vh.ReachIf(s.Index.Height == lock, "accepted-at-bound")
		vh.ReachIf(in.Parent.MaturityHeight == s.childHeight(), "accepted-at-maturity")
	}
}

// v2 input authorisation: an accepted input reveals a policy hashing to the
// parent's address and carries a signature over this very transaction
func VH_SEQ_V2InputAuth() {
	_, s := vhWorld("w")
	vh.Assume(s.childHeight() >= s.Network.HardforkV2.AllowHeight)
	kind := vh.Choice("kind", 4)
	var t types.V2Transaction
	ms := NewMidState(s)
	switch kind {
	case 0, 1: // siacoin / siafund input with a public-key policy
		var pk types.PublicKey
		vh.Fill("pk", &pk)
		sp := types.SatisfiedPolicy{Policy: types.PolicyPublicKey(pk), Signatures: make([]types.Signature, 1)}
		vh.Fill("sig", &sp.Signatures)
		var addr types.Address
		if kind == 0 {
			t.SiacoinInputs = make([]types.V2SiacoinInput, 1)
			t.SiacoinOutputs = make([]types.SiacoinOutput, 1)
			vh.Fill("t", &t)
			in := &t.SiacoinInputs[0]
			vhProof("in.proof", &in.Parent.StateElement, 0)
			in.Parent.ID = vh.GenuineID("in.sc0")
			vh.Assume(in.Parent.SiacoinOutput.Value.Hi < 1<<56)
			in.SatisfiedPolicy = sp
			addr = in.Parent.SiacoinOutput.Address
		} else {
			t.SiafundInputs = make([]types.V2SiafundInput, 1)
			t.SiafundOutputs = make([]types.SiafundOutput, 1)
			vh.Fill("t", &t)
			in := &t.SiafundInputs[0]
			vhProof("in.proof", &in.Parent.StateElement, 0)
			in.Parent.ID = vh.GenuineID("in.sf0")
			vh.Assume(vh.And(in.Parent.SiafundOutput.Value <= 10000, in.Parent.ClaimStart.Cmp(s.SiafundTaxRevenue) <= 0))
			in.SatisfiedPolicy = sp
			addr = in.Parent.SiafundOutput.Address
		}
		err := ValidateV2Transaction(ms, t)
		vh.Assert(vh.Implies(err == nil, types.PolicyPublicKey(pk).Address() == addr), "input accepted with a policy that does not hash to the parent's address")
		vh.Assert(vh.Implies(err == nil, vh.SigOK(pk, s.InputSigHash(t), sp.Signatures[0])), "input accepted without a valid signature over this transaction")
		if err == nil {
			vh.Reach("accepted-input")
		}
	case 2: // attestation
		t.Attestations = make([]types.Attestation, 1)
		t.Attestations[0].Key = "k"
		t.Attestations[0].Value = make([]byte, 1)
		vh.Fill("t", &t)
		err := ValidateV2Transaction(ms, t)
		a := t.Attestations[0]
		vh.Assert(vh.Implies(err == nil, vh.SigOK(a.PublicKey, s.AttestationSigHash(a), a.Signature)), "attestation accepted without a valid signature by its key")
		if err == nil {
			vh.Reach("accepted-attestation")
		}
	case 3: // new contract + foundation address change
		t.FileContracts = make([]types.V2FileContract, 1)
		t.SiacoinInputs = make([]types.V2SiacoinInput, 1)
		t.NewFoundationAddress = new(types.Address)
		vh.Fill("t", &t)
		in := &t.SiacoinInputs[0]
		vhProof("in.proof", &in.Parent.StateElement, 0)
		in.Parent.ID = vh.GenuineID("in.sc0")
		vh.Assume(in.Parent.SiacoinOutput.Value.Hi < 1<<56)
		var pk types.PublicKey
		vh.Fill("pk", &pk)
		in.SatisfiedPolicy = types.SatisfiedPolicy{Policy: types.PolicyPublicKey(pk), Signatures: make([]types.Signature, 1)}
		vh.Fill("sig", &in.SatisfiedPolicy.Signatures)
		err := ValidateV2Transaction(ms, t)
		fc := t.FileContracts[0]
		vh.Assert(vh.Implies(err == nil, vhSignedBy(s, fc, fc.RenterPublicKey, fc.HostPublicKey)), "new contract accepted without both parties' signatures")
		vh.Assert(vh.Implies(err == nil, in.Parent.SiacoinOutput.Address == s.FoundationManagementAddress), "Foundation address changed without spending an input of the management address")
		if err == nil {
			vh.Reach("accepted-contract")
		}
	}
}

// renewal: signed by the keys of the contract as it stands, keys unchanged
func VH_SEQ_V2RenewalAuth() {
	_, s := vhWorld("w")
	vh.Assume(s.childHeight() >= s.Network.HardforkV2.AllowHeight)
	parent := vhGenuineContract("c", s)
	ms := NewMidState(s)
	t := vhResTxn("res", parent, 0)
	err := ValidateV2Transaction(ms, t)
	if err != nil {
		return
	}
	r := t.FileContractResolutions[0].Resolution.(*types.V2FileContractRenewal)
	fc := parent.V2FileContract
	h := s.RenewalSigHash(*r)
	vh.Assert(vh.And(vh.SigOK(fc.RenterPublicKey, h, r.RenterSignature), vh.SigOK(fc.HostPublicKey, h, r.HostSignature)), "renewal accepted without both signatures of the existing contract's keys")
	vh.Assert(vh.And(r.NewContract.RenterPublicKey == fc.RenterPublicKey, r.NewContract.HostPublicKey == fc.HostPublicKey), "renewal changes the contract's keys")
	vh.Assert(vhSignedBy(s, r.NewContract, fc.RenterPublicKey, fc.HostPublicKey), "renewed contract not signed")
	vh.Reach("accepted")
}

// v2 double spend across transactions of one block
func VH_SEQ_V2DoubleSpend() {
	_, s := vhWorld("w")
	vh.Assume(s.childHeight() >= s.Network.HardforkV2.AllowHeight)
	mk := func(name string) types.V2Transaction {
		var t types.V2Transaction
		t.SiacoinInputs = make([]types.V2SiacoinInput, 1)
		t.SiacoinOutputs = make([]types.SiacoinOutput, 1)
		vh.Fill(name, &t)
		in := &t.SiacoinInputs[0]
		vhProof(name+".proof", &in.Parent.StateElement, 0)
		in.SatisfiedPolicy = types.SatisfiedPolicy{Policy: types.PolicyThreshold(0, nil)}
		vh.Assume(in.Parent.SiacoinOutput.Value.Hi < 1<<56)
		return t
	}
	t1, t2 := mk("t1"), mk("t2")
	id := vh.GenuineID("e.sc0")
	t1.SiacoinInputs[0].Parent.ID = id
	t2.SiacoinInputs[0].Parent.ID = id
	ms := NewMidState(s)
	if ValidateV2Transaction(ms, t1) != nil {
		return
	}
	ms.ApplyV2Transaction(t1)
	vh.Reach("first-accepted")
	vh.Assert(ValidateV2Transaction(ms, t2) != nil, "siacoin element spent twice in one block")
	// and twice inside one transaction
	var t3 types.V2Transaction
	t3.SiacoinInputs = []types.V2SiacoinInput{t1.SiacoinInputs[0], t2.SiacoinInputs[0]}
	t3.SiacoinOutputs = t1.SiacoinOutputs
	vh.Assert(ValidateV2Transaction(NewMidState(s), t3) != nil, "siacoin element spent twice in one transaction")
	vh.Reach("end")
}

// v1: a second transaction of the block can only spend a siacoin output that
// exists (supplied genuine element, or created earlier in the block) and has
// not been spent by the first
func VH_SEQ_V1DoubleSpend() {
	_, s := vhWorld("w")
	t1, ts1 := vhV1Txn("t1", vh.Param("mask1", 0x007), 1) // input, output, contract (no keys: SignaturesRequired must be 0)
	vhGenuineV1(s, ts1)
	ms := NewMidState(s)
	if ValidateTransaction(ms, t1, ts1) != nil {
		return
	}
	ms.ApplyTransaction(t1, ts1)
	vh.Reach("first-accepted")
	t2, ts2 := vhV1Txn("t2", 0x003, 1)
	vhGenuineV1(s, ts2)
	// a genuine element supplied twice is the same element
	vh.Assume(vh.Implies(ts2.SiacoinInputs[0].ID == ts1.SiacoinInputs[0].ID, vh.Eq(ts2.SiacoinInputs[0], ts1.SiacoinInputs[0])))
	err := ValidateTransaction(ms, t2, ts2)
	p1, p2 := t1.SiacoinInputs[0].ParentID, t2.SiacoinInputs[0].ParentID
	vh.Assert(vh.Implies(err == nil, p2 != p1), "siacoin output spent twice in one block (v1)")
	exists := vh.Or(p2 == ts2.SiacoinInputs[0].ID, p2 == t1.SiacoinOutputID(0))
	vh.Assert(vh.Implies(err == nil, exists), "v1 input spends an ID that is not a siacoin output")
	if err == nil {
		vh.Reach("second-accepted")
	}
}

// hard-fork gates and v1 locks
func VH_SEQ_ForkHeightsAndV1Locks() {
	_, s := vhWorld("w")
	t1, ts1 := vhV1Txn("t1", 0x203, 1)
	vhGenuineV1(s, ts1)
	err := ValidateTransaction(NewMidState(s), t1, ts1)
	h := s.Index.Height + 1
	vh.Assert(vh.Implies(err == nil, h < s.Network.HardforkV2.RequireHeight), "v1 transaction accepted at or after the v2 require height")
	vh.Assert(vh.Implies(err == nil, vh.And(t1.SiacoinInputs[0].UnlockConditions.Timelock <= h, ts1.SiacoinInputs[0].MaturityHeight <= h)), "v1 input spent before its timelock / maturity height")
	vh.Assert(vh.Implies(err == nil, t1.Signatures[0].Timelock <= h), "v1 signature accepted before its timelock")
	if err == nil {
		vh.Reach("v1-accepted")
		vh.ReachIf(h+1 == s.Network.HardforkV2.RequireHeight, "v1-last-height")
		vh.ReachIf(ts1.SiacoinInputs[0].MaturityHeight == h, "v1-at-maturity")
	}
	var t2 types.V2Transaction
	t2.ArbitraryData = make([]byte, 1)
	vh.Fill("t2", &t2)
	err2 := ValidateV2Transaction(NewMidState(s), t2)
	vh.Assert(vh.Implies(err2 == nil, h >= s.Network.HardforkV2.AllowHeight), "v2 transaction accepted before the v2 allow height")
	if err2 == nil {
		vh.Reach("v2-accepted")
		vh.ReachIf(h == s.Network.HardforkV2.AllowHeight, "v2-first-height")
	}
}

// conservation for one v2 transaction: what is created equals what is spent
func VH_SEQ_V2Conservation() {
	_, s := vhWorld("w")
	vh.Assume(s.childHeight() >= s.Network.HardforkV2.AllowHeight)
	vh.Assume(s.SiafundTaxRevenue.Hi < 1<<56)
	withContract := vh.Choice("contract", 2) == 1
	var t types.V2Transaction
	t.SiacoinInputs = make([]types.V2SiacoinInput, 1)
	t.SiacoinOutputs = make([]types.SiacoinOutput, 2)
	if withContract {
		t.FileContracts = make([]types.V2FileContract, 1)
	}
	vh.Fill("t", &t)
	in := &t.SiacoinInputs[0]
	vhProof("in.proof", &in.Parent.StateElement, 0)
	in.Parent.ID = vh.GenuineID("in.sc0")
	in.SatisfiedPolicy = types.SatisfiedPolicy{Policy: types.PolicyThreshold(0, nil)}
	vh.Assume(in.Parent.SiacoinOutput.Value.Hi < 1<<56)
	ms := NewMidState(s)
	if ValidateV2Transaction(ms, t) != nil {
		return
	}
	ms.ApplyV2Transaction(t)
	// created siacoin elements + locked contract value + tax + fee == spent value
	var created types.Currency
	ok := true
	add := func(c types.Currency) {
		var o bool
		created, o = created.AddWithOverflow(c)
		ok = vh.And(ok, !o)
	}
	ncreated := 0
	for _, d := range ms.sces {
		if d.Created {
			add(d.SiacoinElement.SiacoinOutput.Value)
			ncreated++
		}
	}
	vh.Assert(ncreated == 2, "number of created siacoin elements")
	for _, d := range ms.v2fces {
		if d.Created {
			add(d.V2FileContractElement.V2FileContract.RenterOutput.Value)
			add(d.V2FileContractElement.V2FileContract.HostOutput.Value)
		}
	}
	pool, under := ms.siafundTaxRevenue.SubWithUnderflow(s.SiafundTaxRevenue)
	add(pool)
	add(t.MinerFee)
	vh.Assert(vh.And(ok, !under, created == in.Parent.SiacoinOutput.Value), "v2 transaction does not conserve siacoins")
	vh.Reach("end")
}

// v2 siafund claim after a contract was formed earlier in the same block: the
// claim uses the pool as it stands at that point of the block
func VH_SEQ_V2SiafundClaimRunningPool() {
	_, s := vhWorld("w")
	vh.Assume(s.childHeight() >= s.Network.HardforkV2.AllowHeight)
	ms := NewMidState(s)
	// t1: one input funds a new contract
	var t1 types.V2Transaction
	t1.SiacoinInputs = make([]types.V2SiacoinInput, 1)
	t1.FileContracts = make([]types.V2FileContract, 1)
	vh.Fill("t1", &t1)
	in := &t1.SiacoinInputs[0]
	vhProof("in.proof", &in.Parent.StateElement, 0)
	in.Parent.ID = vh.GenuineID("in.sc0")
	in.SatisfiedPolicy = types.SatisfiedPolicy{Policy: types.PolicyThreshold(0, nil)}
	vh.Assume(in.Parent.SiacoinOutput.Value.Hi < 1<<56)
	if ValidateV2Transaction(ms, t1) != nil {
		return
	}
	ms.ApplyV2Transaction(t1)
	poolNow := ms.siafundTaxRevenue
	// t2: spend a siafund output
	var t2 types.V2Transaction
	t2.SiafundInputs = make([]types.V2SiafundInput, 1)
	t2.SiafundOutputs = make([]types.SiafundOutput, 1)
	vh.Fill("t2", &t2)
	sf := &t2.SiafundInputs[0]
	vhProof("sf.proof", &sf.Parent.StateElement, 1)
	sf.Parent.ID = vh.GenuineID("sf.sf0")
	sf.SatisfiedPolicy = types.SatisfiedPolicy{Policy: types.PolicyThreshold(0, nil)}
	vh.Assume(vh.And(sf.Parent.SiafundOutput.Value <= 10000, sf.Parent.ClaimStart.Cmp(s.SiafundTaxRevenue) <= 0))
	if ValidateV2Transaction(ms, t2) != nil {
		return
	}
	ms.ApplyV2Transaction(t2)
	diff, under := poolNow.SubWithUnderflow(sf.Parent.ClaimStart)
	vh.Assert(!under, "claim start beyond the pool")
	want, ovf := diff.Div64(10000).Mul64WithOverflow(sf.Parent.SiafundOutput.Value)
	found := false
	for _, d := range ms.sces {
		if d.SiacoinElement.ID == sf.Parent.ID.V2ClaimOutputID() {
			found = true
			vh.Assert(vh.And(!ovf, d.SiacoinElement.SiacoinOutput.Value == want), "v2 siafund claim does not pay the share of the tax collected up to this point of the block")
		}
	}
	vh.Assert(found, "no claim output created")
	for _, d := range ms.sfes {
		if d.Created {
			vh.Assert(d.SiafundElement.ClaimStart == poolNow, "new siafund output does not start claiming at the current pool")
		}
	}
	vh.Reach("end")
}
