package consensus

import (
	"go.sia.tech/core/blake2b"
	"go.sia.tech/core/internal/vh"
	"go.sia.tech/core/types"
)

// plain Merkle tree over leaf hashes (RFC 6962 shape)
func vhPlainTree(hs []types.Hash256) types.Hash256 {
	if len(hs) == 1 {
		return hs[0]
	}
	k := 1
	for k*2 < len(hs) {
		k *= 2
	}
	return blake2b.SumPair(vhPlainTree(hs[:k]), vhPlainTree(hs[k:]))
}

// sibling path of leaf idx, leaf-to-root order, for the plain tree
func vhPlainPath(hs []types.Hash256, idx int) []types.Hash256 {
	if len(hs) == 1 {
		return nil
	}
	k := 1
	for k*2 < len(hs) {
		k *= 2
	}
	if idx < k {
		return append(vhPlainPath(hs[:k], idx), vhPlainTree(hs[k:]))
	}
	return append(vhPlainPath(hs[k:], idx-k), vhPlainTree(hs[:k]))
}

// v2 storage proofs: for a file of L 64-byte leaves with root = plain Merkle
// tree, storageProofRoot accepts the honest proof of every leaf (completeness)
// and, for a symbolic proof and a symbolic presented leaf, acceptance implies
// the presented leaf is the file's leaf at the challenged index (soundness)
func VH_C07_V2StorageProof() {
	var s State
	L := 1 + vh.Choice("leaves", vh.Param("maxleaves", 6))
	data := make([][64]byte, L)
	vh.Fill("file", &data)
	lh := make([]types.Hash256, L)
	for i := range data {
		lh[i] = s.StorageProofLeafHash(data[i][:])
	}
	root := vhPlainTree(lh)
	// file size: full leaves except possibly a partial last one
	last := 1 + vh.Choice("lastlen", 64)
	filesize := uint64(64*(L-1) + last)
	idx := vh.Choice("index", L)
	// completeness: the plain sibling path is accepted
	honest := vhPlainPath(lh, idx)
	vh.Assert(storageProofRoot(lh[idx], uint64(idx), filesize, honest) == root, "honest storage proof rejected")
	// soundness
	n := len(honest) + vh.Choice("lendelta", 3) - 1
	if n < 0 {
		return
	}
	proof := make([]types.Hash256, n)
	vh.Fill("proof", &proof)
	var leaf [64]byte
	vh.Fill("leaf", &leaf)
	ok := storageProofRoot(s.StorageProofLeafHash(leaf[:]), uint64(idx), filesize, proof) == root
	vh.Assert(vh.Implies(ok, leaf == data[idx]), "storage proof accepted for data that is not the challenged leaf")
	if ok {
		vh.Reach("accepted")
	}
	vh.Reach("end")
}

// v1 storage proofs, through the real validateFileContracts: for a file of L
// leaves whose contract commits to the plain Merkle root, the honest sibling
// path of the challenged leaf is accepted in every era (completeness) and, for a
// symbolic proof and leaf, acceptance implies the bytes that count in that era
// are the file's bytes at the challenged index (soundness).
func VH_C07_V1StorageProof() {
	_, s := vhWorld("w")
	era := vh.Choice("era", 3)
	switch era {
	case 0:
		vh.Assume(s.childHeight() < s.Network.HardforkTax.Height)
	case 1:
		vh.Assume(vh.And(s.childHeight() >= s.Network.HardforkTax.Height, s.childHeight() < s.Network.HardforkStorageProof.Height))
	default:
		vh.Assume(vh.And(s.childHeight() >= s.Network.HardforkTax.Height, s.childHeight() >= s.Network.HardforkStorageProof.Height))
	}
	L := 1 + vh.Choice("leaves", vh.Param("maxleaves", 6))
	last := 0
	if vh.Param("lastall", 0) == 1 {
		last = 1 + vh.Choice("lastlen", 64)
	} else {
		last = []int{1, 31, 63, 64}[vh.Choice("lastlen", 4)]
	}
	filesize := uint64(64*(L-1) + last)
	data := make([][64]byte, L)
	vh.Fill("file", &data)
	// bytes of the last leaf that count towards the root in this era
	eff := last
	if era == 0 {
		eff = 64
	} else if era == 1 {
		eff = last % 64 // the old rule cuts a full last leaf to nothing
	}
	for j := eff; j < 64; j++ {
		data[L-1][j] = 0
	}
	lh := make([]types.Hash256, L)
	for i := range data {
		lh[i] = s.StorageProofLeafHash(data[i][:])
	}
	var fce types.FileContractElement
	vh.Fill("fce", &fce)
	fce.ID = vh.GenuineID("supp.fc0")
	fce.FileContract.Filesize = filesize
	fce.FileContract.FileMerkleRoot = vhPlainTree(lh)
	var windowID types.BlockID
	vh.Fill("window", &windowID)
	ts := V1TransactionSupplement{StorageProofs: []V1StorageProofSupplement{{FileContract: fce, WindowID: windowID}}}
	idx := s.StorageProofLeafIndex(filesize, windowID, fce.ID)
	k := -1
	for i := 0; i < L; i++ {
		if idx == uint64(i) {
			k = i
		}
	}
	vh.Assert(k >= 0, "challenge index outside the file")
	if k < 0 {
		return
	}
	honest := vhPlainPath(lh, k)
	txn := types.Transaction{StorageProofs: []types.StorageProof{{ParentID: fce.ID, Leaf: data[k], Proof: honest}}}
	vh.Assert(validateFileContracts(NewMidState(s), txn, ts) == nil, "honest v1 storage proof rejected")
	// soundness
	n := len(honest) + vh.Choice("lendelta", 3) - 1
	if n < 0 {
		return
	}
	proof := make([]types.Hash256, n)
	vh.Fill("proof", &proof)
	var leaf [64]byte
	vh.Fill("leaf", &leaf)
	txn2 := types.Transaction{StorageProofs: []types.StorageProof{{ParentID: fce.ID, Leaf: leaf, Proof: proof}}}
	ok := validateFileContracts(NewMidState(s), txn2, ts) == nil
	m := 64
	if k == L-1 {
		m = eff
	}
	same := true
	for j := 0; j < m; j++ {
		same = vh.And(same, leaf[j] == data[k][j])
	}
	vh.Assert(vh.Implies(ok, same), "v1 storage proof accepted for data that is not the challenged leaf")
	if ok {
		vh.Reach("accepted")
	}
	vh.Reach("end")
}
