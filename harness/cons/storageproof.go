package consensus

import (
	"go.sia.tech/core/blake2b"
	"go.sia.tech/core/internal/vh"
	"go.sia.tech/core/types"
)

// plain Merkle tree over leaf hashes (RFC 6962 shape)
func vhPlainTree(hs []types.Hash256) types.Hash256 {
	if len(hs) == 1 {
		return hs[0]
	}
	k := 1
	for k*2 < len(hs) {
		k *= 2
	}
	return blake2b.SumPair(vhPlainTree(hs[:k]), vhPlainTree(hs[k:]))
}

// sibling path of leaf idx, leaf-to-root order, for the plain tree
func vhPlainPath(hs []types.Hash256, idx int) []types.Hash256 {
	if len(hs) == 1 {
		return nil
	}
	k := 1
	for k*2 < len(hs) {
		k *= 2
	}
	if idx < k {
		return append(vhPlainPath(hs[:k], idx), vhPlainTree(hs[k:]))
	}
	return append(vhPlainPath(hs[k:], idx-k), vhPlainTree(hs[:k]))
}

// v2 storage proofs: for a file of L 64-byte leaves with root = plain Merkle
// tree, storageProofRoot accepts the honest proof of every leaf (completeness)
// and, for a symbolic proof and a symbolic presented leaf, acceptance implies
// the presented leaf is the file's leaf at the challenged index (soundness)
func VH_C07_V2StorageProof() {
	var s State
	L := 1 + vh.Choice("leaves", vh.Param("maxleaves", 6))
	data := make([][64]byte, L)
	vh.Fill("file", &data)
	lh := make([]types.Hash256, L)
	for i := range data {
		lh[i] = s.StorageProofLeafHash(data[i][:])
	}
	root := vhPlainTree(lh)
	// file size: full leaves except possibly a partial last one
	last := 1 + vh.Choice("lastlen", 64)
	filesize := uint64(64*(L-1) + last)
	idx := vh.Choice("index", L)
	// completeness: the plain sibling path is accepted
	honest := vhPlainPath(lh, idx)
	vh.Assert(storageProofRoot(lh[idx], uint64(idx), filesize, honest) == root, "honest storage proof rejected")
	// soundness
	n := len(honest) + vh.Choice("lendelta", 3) - 1
	if n < 0 {
		return
	}
	proof := make([]types.Hash256, n)
	vh.Fill("proof", &proof)
	var leaf [64]byte
	vh.Fill("leaf", &leaf)
	ok := storageProofRoot(s.StorageProofLeafHash(leaf[:]), uint64(idx), filesize, proof) == root
	vh.Assert(vh.Implies(ok, leaf == data[idx]), "storage proof accepted for data that is not the challenged leaf")
	if ok {
		vh.Reach("accepted")
	}
	vh.Reach("end")
}
