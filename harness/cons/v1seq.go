package consensus

import (
	"time"

	"go.sia.tech/core/internal/vh"
	"go.sia.tech/core/types"
)

func vhSum(os []types.SiacoinOutput) (types.Currency, bool) {
	var s types.Currency
	ok := true
	for _, o := range os {
		var of bool
		s, of = s.AddWithOverflow(o.Value)
		ok = vh.And(ok, !of)
	}
	return s, ok
}

// v1 contract formation: rules and effects
func VH_SEQ_V1FormContract() {
	_, s := vhWorld("w")
	t, ts := vhV1Txn("t", 0x007, 1) // input, output, contract; no keys => SignaturesRequired must be 0
	vhGenuineV1(s, ts)
	ms := NewMidState(s)
	if ValidateTransaction(ms, t, ts) != nil {
		return
	}
	h := s.Index.Height + 1
	fc := t.FileContracts[0]
	v, ok1 := vhSum(fc.ValidProofOutputs)
	m, ok2 := vhSum(fc.MissedProofOutputs)
	tax := s.FileContractTax(fc)
	vt, o3 := v.AddWithOverflow(tax)
	vh.Assert(vh.And(fc.WindowStart >= h, fc.WindowEnd > fc.WindowStart), "contract accepted with a window in the past or an empty window")
	vh.ReachIf(fc.WindowStart == h, "window-starts-now")
	vh.ReachIf(fc.WindowEnd == fc.WindowStart+1, "minimal-window")
	vh.Assert(vh.And(ok1, ok2, !o3, v == m, fc.Payout == vt), "contract accepted although payout != valid sum + tax or valid sum != missed sum")
	// conservation of the transaction: input == output + payout (no fees in this shape)
	tot, o4 := t.SiacoinOutputs[0].Value.AddWithOverflow(fc.Payout)
	vh.Assert(vh.And(!o4, tot == ts.SiacoinInputs[0].SiacoinOutput.Value), "v1 transaction does not conserve siacoins")
	ms.ApplyTransaction(t, ts)
	vh.Assert(len(ms.fces) == 1, "contract element not created")
	if len(ms.fces) == 1 {
		d := ms.fces[0]
		vh.Assert(vh.And(d.Created, d.FileContractElement.ID == t.FileContractID(0), vh.Eq(d.FileContractElement.FileContract, fc)), "created contract element differs from the contract in the transaction")
	}
	pool, o5 := s.SiafundTaxRevenue.AddWithOverflow(tax)
	vh.Assert(vh.And(!o5, ms.siafundTaxRevenue == pool), "siafund pool not increased by exactly the tax")
	vh.Reach("end")
}

// v1 revision: rules (window, revision number, unlock hash, sums) and effect
func VH_SEQ_V1Revision() {
	_, s := vhWorld("w")
	t, ts := vhV1Txn("t", 0x008, 1)
	vhGenuineV1(s, ts)
	ms := NewMidState(s)
	if ValidateTransaction(ms, t, ts) != nil {
		return
	}
	h := s.Index.Height + 1
	rev := t.FileContractRevisions[0]
	parent := ts.RevisedFileContracts[0]
	vh.Assert(rev.ParentID == parent.ID, "revision accepted for a contract that was not supplied")
	vh.Assert(parent.FileContract.WindowStart >= h, "v1 contract revised after its proof window opened")
	vh.Assert(vh.And(rev.FileContract.WindowStart >= h, rev.FileContract.WindowEnd > rev.FileContract.WindowStart), "revision accepted with a bad window")
	vh.Assert(rev.FileContract.RevisionNumber > parent.FileContract.RevisionNumber, "revision number not increased")
	vh.Assert(rev.UnlockConditions.UnlockHash() == parent.FileContract.UnlockHash, "revision accepted with unlock conditions that do not hash to the contract's unlock hash")
	vh.Assert(rev.UnlockConditions.Timelock <= h, "revision accepted before its timelock")
	vh.ReachIf(rev.UnlockConditions.Timelock == h, "timelock-at-bound")
	vh.ReachIf(parent.FileContract.WindowStart == h, "revised-at-window-start")
	vh.ReachIf(rev.FileContract.RevisionNumber == parent.FileContract.RevisionNumber+1, "revision-number-plus-one")
	rv, _ := vhSum(rev.FileContract.ValidProofOutputs)
	pv, _ := vhSum(parent.FileContract.ValidProofOutputs)
	rm, _ := vhSum(rev.FileContract.MissedProofOutputs)
	pm, _ := vhSum(parent.FileContract.MissedProofOutputs)
	vh.Assert(vh.And(rv == pv, rm == pm), "revision changes the valid or missed payout sum")
	ms.ApplyTransaction(t, ts)
	vh.Assert(len(ms.fces) == 1, "revision not recorded")
	if len(ms.fces) == 1 {
		d := ms.fces[0]
		want := rev.FileContract
		want.Payout = parent.FileContract.Payout
		vh.Assert(vh.And(!d.Created, !d.Resolved, d.Revision != nil, d.FileContractElement.ID == parent.ID), "revision diff wrong")
		if d.Revision != nil {
			vh.Assert(vh.Eq(*d.Revision, want), "recorded revision differs from the accepted revision (payout carried over)")
		}
	}
	vh.Reach("end")
}

// v1 siafund spend: claim pays exactly the share of tax collected since creation
func VH_SEQ_V1SiafundClaim() {
	_, s := vhWorld("w")
	t, ts := vhV1Txn("t", 0x060, 1)
	vhGenuineV1(s, ts)
	ms := NewMidState(s)
	if ValidateTransaction(ms, t, ts) != nil {
		return
	}
	vh.Assert(t.SiafundOutputs[0].Value == ts.SiafundInputs[0].SiafundOutput.Value, "siafunds not conserved")
	h := s.Index.Height + 1
	vh.Assert(t.SiafundInputs[0].UnlockConditions.Timelock <= h, "siafund input spent before its timelock")
	ms.ApplyTransaction(t, ts)
	parent := ts.SiafundInputs[0]
	// share = floor((pool - ClaimStart) / 10000) * value
	diff, under := s.SiafundTaxRevenue.SubWithUnderflow(parent.ClaimStart)
	vh.Assert(!under, "claim start beyond the pool")
	claimID := t.SiafundInputs[0].ParentID.ClaimOutputID()
	found := false
	for _, d := range ms.sces {
		if d.SiacoinElement.ID == claimID {
			found = true
			per := d.SiacoinElement.SiacoinOutput.Value
			// per == (diff / 10000) * value  <=>  checked through the defining inequalities
			q := diff.Div64(10000)
			want, ovf := q.Mul64WithOverflow(parent.SiafundOutput.Value)
			vh.Assert(vh.And(!ovf, per == want), "siafund claim does not pay exactly the holder's share")
			vh.Assert(vh.And(d.Created, d.SiacoinElement.SiacoinOutput.Address == t.SiafundInputs[0].ClaimAddress, d.SiacoinElement.MaturityHeight == s.MaturityHeight()), "claim output address / maturity wrong")
		}
	}
	vh.Assert(found, "no claim output created")
	for _, d := range ms.sfes {
		if d.Created {
			vh.Assert(d.SiafundElement.ClaimStart == s.SiafundTaxRevenue, "new siafund output does not start claiming at the current pool")
		}
	}
	vh.Reach("end")
}

// v1 storage proof: only once the window-start block exists; creates exactly
// the valid outputs, delayed by the maturity period; expiry creates the missed ones
func VH_SEQ_V1Resolution() {
	_, s := vhWorld("w")
	kind := vh.Choice("kind", 2)
	if kind == 0 {
		t, ts := vhV1Txn("t", 0x010, 1)
		vhGenuineV1(s, ts)
		ms := NewMidState(s)
		if ValidateTransaction(ms, t, ts) != nil {
			return
		}
		fce := ts.StorageProofs[0].FileContract
		vh.Assert(t.StorageProofs[0].ParentID == fce.ID, "storage proof accepted for a contract that was not supplied")
		ms.ApplyTransaction(t, ts)
		n := 0
		for _, d := range ms.sces {
			for i, o := range fce.FileContract.ValidProofOutputs {
				if d.SiacoinElement.ID == fce.ID.ValidOutputID(i) {
					vh.Assert(vh.And(d.Created, vh.Eq(d.SiacoinElement.SiacoinOutput, o), d.SiacoinElement.MaturityHeight == s.MaturityHeight()), "valid proof output wrong")
					n++
				}
			}
		}
		vh.Assert(n == len(fce.FileContract.ValidProofOutputs), "storage proof did not create exactly the valid outputs")
		vh.Assert(vh.And(len(ms.fces) == 1, ms.fces[0].Resolved, ms.fces[0].Valid), "contract not marked resolved (valid)")
		vh.Reach("proof-end")
		return
	}
	// expiry through the block supplement
	var fce types.FileContractElement
	fce.FileContract.ValidProofOutputs = make([]types.SiacoinOutput, 2)
	fce.FileContract.MissedProofOutputs = make([]types.SiacoinOutput, 2)
	vh.Fill("exp", &fce)
	fce.ID = vh.GenuineID("exp.fc0")
	var b types.Block
	b.MinerPayouts = make([]types.SiacoinOutput, 1)
	vh.Fill("b", &b)
	s.FoundationSubsidyAddress = types.VoidAddress
	vh.Assume(s.childHeight() < s.Network.HardforkV2.RequireHeight)
	ms := NewMidState(s)
	ms.ApplyBlock(b, V1BlockSupplement{ExpiringFileContracts: []types.FileContractElement{fce}})
	n := 0
	for _, d := range ms.sces {
		for i, o := range fce.FileContract.MissedProofOutputs {
			if d.SiacoinElement.ID == fce.ID.MissedOutputID(i) {
				vh.Assert(vh.And(d.Created, vh.Eq(d.SiacoinElement.SiacoinOutput, o), d.SiacoinElement.MaturityHeight == s.MaturityHeight()), "missed proof output wrong")
				n++
			}
		}
	}
	vh.Assert(n == 2, "expiry did not create exactly the missed outputs")
	vh.Assert(vh.And(len(ms.fces) == 1, ms.fces[0].Resolved, !ms.fces[0].Valid), "expired contract not marked resolved (missed)")
	vh.Reach("expiry-end")
}

// one v1 transaction cannot name the same parent twice (also when the unlock
// conditions require no signatures)
func VH_SEQ_V1SameTxnDouble() {
	_, s := vhWorld("w")
	var t types.Transaction
	t.SiacoinInputs = make([]types.SiacoinInput, 2)
	t.SiacoinOutputs = make([]types.SiacoinOutput, 1)
	vh.Fill("t", &t)
	var ts V1TransactionSupplement
	ts.SiacoinInputs = make([]types.SiacoinElement, 1)
	vh.Fill("supp", &ts)
	ts.SiacoinInputs[0].ID = vh.GenuineID("supp.sc0")
	vhGenuineV1(s, ts)
	t.SiacoinInputs[0].ParentID = ts.SiacoinInputs[0].ID
	t.SiacoinInputs[1].ParentID = ts.SiacoinInputs[0].ID
	t.SiacoinInputs[1].UnlockConditions = t.SiacoinInputs[0].UnlockConditions
	err := ValidateTransaction(NewMidState(s), t, ts)
	vh.Assert(err != nil, "one v1 transaction spends the same siacoin output twice")
	vh.Reach("end")
}

// v1 k-of-n unlock conditions need k DISTINCT listed keys
func VH_SEQ_V1MultisigDistinctKeys() {
	_, s := vhWorld("w")
	var t types.Transaction
	t.SiacoinInputs = make([]types.SiacoinInput, 1)
	t.SiacoinOutputs = make([]types.SiacoinOutput, 1)
	t.Signatures = make([]types.TransactionSignature, 2)
	t.SiacoinInputs[0].UnlockConditions.PublicKeys = make([]types.UnlockKey, 2)
	for i := range t.SiacoinInputs[0].UnlockConditions.PublicKeys {
		t.SiacoinInputs[0].UnlockConditions.PublicKeys[i].Key = make([]byte, 32)
	}
	for i := range t.Signatures {
		t.Signatures[i].Signature = make([]byte, 64)
	}
	vh.Fill("t", &t)
	for i := range t.SiacoinInputs[0].UnlockConditions.PublicKeys {
		t.SiacoinInputs[0].UnlockConditions.PublicKeys[i].Algorithm = types.SpecifierEd25519
	}
	t.SiacoinInputs[0].UnlockConditions.SignaturesRequired = 2
	for i := range t.Signatures {
		t.Signatures[i].CoveredFields = types.CoveredFields{WholeTransaction: true}
	}
	var ts V1TransactionSupplement
	ts.SiacoinInputs = make([]types.SiacoinElement, 1)
	vh.Fill("supp", &ts)
	ts.SiacoinInputs[0].ID = vh.GenuineID("supp.sc0")
	vhGenuineV1(s, ts)
	err := ValidateTransaction(NewMidState(s), t, ts)
	vh.Assert(vh.Implies(err == nil, t.Signatures[0].PublicKeyIndex != t.Signatures[1].PublicKeyIndex), "2-of-2 unlock conditions satisfied by one key signing twice")
	if err == nil {
		vh.Reach("accepted")
	}
}

// a contract proven in a block is not also expired by that block
func VH_SEQ_V1ProofAndExpirySameBlock() {
	_, s := vhWorld("w")
	vh.Assume(s.childHeight() < s.Network.HardforkV2.RequireHeight)
	s.FoundationSubsidyAddress = types.VoidAddress
	t, ts := vhV1Txn("t", 0x010, 1)
	vhGenuineV1(s, ts)
	if ValidateTransaction(NewMidState(s), t, ts) != nil {
		return
	}
	fce := ts.StorageProofs[0].FileContract
	var b types.Block
	b.MinerPayouts = make([]types.SiacoinOutput, 1)
	vh.Fill("b", &b)
	b.Transactions = []types.Transaction{t}
	bs := V1BlockSupplement{Transactions: []V1TransactionSupplement{ts}, ExpiringFileContracts: []types.FileContractElement{fce}}
	ms := NewMidState(s)
	ms.ApplyBlock(b, bs)
	missed := 0
	for _, d := range ms.sces {
		for i := range fce.FileContract.MissedProofOutputs {
			if d.SiacoinElement.ID == fce.ID.MissedOutputID(i) {
				missed++
			}
		}
	}
	vh.Assert(missed == 0, "contract resolved by a storage proof is resolved again as expired in the same block")
	vh.Assert(vh.And(len(ms.fces) == 1, ms.fces[0].Resolved, ms.fces[0].Valid), "contract proven in the block is not recorded as resolved valid")
	vh.Reach("end")
}

// miner payouts equal the block reward plus every fee of the block (v1 and v2)
func VH_SEQ_MinerPayouts() {
	_, s := vhWorld("w")
	vh.Assume(vh.And(s.Network.InitialCoinbase.Hi < 1<<40, s.Network.MinimumCoinbase.Hi < 1<<40))
	var b types.Block
	b.MinerPayouts = make([]types.SiacoinOutput, 1)
	b.Transactions = make([]types.Transaction, 1)
	b.Transactions[0].MinerFees = make([]types.Currency, 1)
	withV2 := vh.Choice("v2", 2) == 1
	if withV2 {
		b.V2 = &types.V2BlockData{Transactions: make([]types.V2Transaction, 1)}
	}
	vh.Fill("b", &b)
	err := validateMinerPayouts(s, b)
	want, o1 := s.BlockReward().AddWithOverflow(b.Transactions[0].MinerFees[0])
	o2 := false
	if withV2 {
		want, o2 = want.AddWithOverflow(b.V2.Transactions[0].MinerFee)
	}
	vh.Assert(vh.Implies(err == nil, vh.And(!o1, !o2, b.MinerPayouts[0].Value == want)), "miner payout accepted that is not block reward + all fees")
	if err == nil {
		vh.Reach("accepted")
	}
}

// v1 per-signature timelock: a signature counts only from its timelock height on,
// measured at the height of the block containing the transaction, and exactly
// at that height it does count
func VH_SEQ_V1SigTimelock() {
	_, s := vhWorld("w")
	var t types.Transaction
	t.SiacoinInputs = make([]types.SiacoinInput, 1)
	t.SiacoinOutputs = make([]types.SiacoinOutput, 1)
	t.Signatures = make([]types.TransactionSignature, 1)
	t.SiacoinInputs[0].UnlockConditions.PublicKeys = []types.UnlockKey{{Key: make([]byte, 32)}}
	t.Signatures[0].Signature = make([]byte, 64)
	vh.Fill("t", &t)
	t.SiacoinInputs[0].UnlockConditions.PublicKeys[0].Algorithm = types.SpecifierEd25519
	t.SiacoinInputs[0].UnlockConditions.SignaturesRequired = 1
	t.Signatures[0].CoveredFields = types.CoveredFields{WholeTransaction: true}
	var ts V1TransactionSupplement
	ts.SiacoinInputs = make([]types.SiacoinElement, 1)
	vh.Fill("supp", &ts)
	ts.SiacoinInputs[0].ID = vh.GenuineID("supp.sc0")
	vhGenuineV1(s, ts)
	err := ValidateTransaction(NewMidState(s), t, ts)
	h := s.childHeight()
	vh.Assert(vh.Implies(err == nil, vh.And(t.Signatures[0].Timelock <= h, t.SiacoinInputs[0].UnlockConditions.Timelock <= h)), "v1 signature or unlock conditions accepted before their timelock")
	if err == nil {
		vh.Reach("accepted")
		vh.ReachIf(t.Signatures[0].Timelock == h, "accepted-at-sig-bound")
		vh.ReachIf(t.SiacoinInputs[0].UnlockConditions.Timelock == h, "accepted-at-uc-bound")
	}
}

// issuance of a block: exactly the miner payouts and, on the Foundation's
// schedule, the subsidy are created, all delayed by the maturity period
func VH_SEQ_BlockIssuance() {
	n, s := vhWorld("w")
	n.BlockInterval = 10 * time.Minute
	var b types.Block
	b.MinerPayouts = make([]types.SiacoinOutput, 1)
	vh.Fill("b", &b)
	ms := NewMidState(s)
	ms.ApplyBlock(b, V1BlockSupplement{})
	bid := b.ID()
	h := s.childHeight()
	hf := s.Network.HardforkFoundation.Height
	const perYear, perMonth = 52560, 4380
	due := vh.And(s.FoundationSubsidyAddress != types.VoidAddress, h >= hf, (h-hf)%perMonth == 0)
	want := types.Siacoins(30000).Mul64(perMonth)
	if h == hf {
		want = types.Siacoins(30000).Mul64(perYear)
	}
	payouts, subsidies, others := 0, 0, 0
	for _, d := range ms.sces {
		switch d.SiacoinElement.ID {
		case bid.MinerOutputID(0):
			payouts++
			vh.Assert(vh.And(d.Created, !d.Spent, d.SiacoinElement.SiacoinOutput == b.MinerPayouts[0], d.SiacoinElement.MaturityHeight == s.MaturityHeight()), "miner payout element wrong")
		case bid.FoundationOutputID():
			subsidies++
			vh.Assert(vh.And(d.Created, !d.Spent, d.SiacoinElement.SiacoinOutput.Address == s.FoundationSubsidyAddress, d.SiacoinElement.SiacoinOutput.Value == want,
				d.SiacoinElement.MaturityHeight == s.MaturityHeight()), "foundation subsidy element wrong")
		default:
			others++
		}
	}
	vh.Assert(vh.And(payouts == 1, others == 0), "block without transactions creates something other than its miner payout and the subsidy")
	if due {
		vh.Assert(subsidies == 1, "foundation subsidy due but not created")
		vh.Reach("subsidy")
	} else {
		vh.Assert(subsidies == 0, "foundation subsidy created off schedule")
		vh.Reach("no-subsidy")
	}
	vh.Assert(vh.And(len(ms.sfes) == 0, len(ms.fces) == 0, len(ms.v2fces) == 0, ms.siafundTaxRevenue == s.SiafundTaxRevenue), "empty block changes siafunds, contracts or the pool")
	vh.Assert(vh.And(ms.cie.ID == bid, ms.cie.ChainIndex.Height == h, ms.cie.ChainIndex.ID == bid), "chain index element wrong")
}

// v1 input authorisation at validator level: an accepted 1-of-1 ed25519 input
// carries a signature by the listed key over the whole-transaction hash, or over
// the partial hash of exactly the fields its CoveredFields name (what those
// hashes bind is C12)
func VH_SEQ_V1SigAuth() {
	_, s := vhWorld("w")
	var t types.Transaction
	t.SiacoinInputs = make([]types.SiacoinInput, 1)
	t.SiacoinOutputs = make([]types.SiacoinOutput, 1)
	t.Signatures = make([]types.TransactionSignature, 1)
	t.SiacoinInputs[0].UnlockConditions.PublicKeys = []types.UnlockKey{{Key: make([]byte, 32)}}
	t.Signatures[0].Signature = make([]byte, 64)
	whole := vh.Choice("whole", 2) == 1
	if !whole {
		t.Signatures[0].CoveredFields.SiacoinInputs = make([]uint64, 1)
		t.Signatures[0].CoveredFields.SiacoinOutputs = make([]uint64, 1)
	}
	vh.Fill("t", &t)
	t.SiacoinInputs[0].UnlockConditions.PublicKeys[0].Algorithm = types.SpecifierEd25519
	t.SiacoinInputs[0].UnlockConditions.SignaturesRequired = 1
	t.Signatures[0].CoveredFields.WholeTransaction = whole
	var ts V1TransactionSupplement
	ts.SiacoinInputs = make([]types.SiacoinElement, 1)
	vh.Fill("supp", &ts)
	ts.SiacoinInputs[0].ID = vh.GenuineID("supp.sc0")
	vhGenuineV1(s, ts)
	if ValidateTransaction(NewMidState(s), t, ts) != nil {
		vh.Reach("rejected")
		return
	}
	sig := t.Signatures[0]
	uc := t.SiacoinInputs[0].UnlockConditions
	vh.Assert(vh.And(sig.ParentID == types.Hash256(t.SiacoinInputs[0].ParentID), sig.PublicKeyIndex == 0), "accepted signature does not name the input and its key")
	vh.Assert(uc.UnlockHash() == ts.SiacoinInputs[0].SiacoinOutput.Address, "unlock conditions do not hash to the parent's address")
	vh.Assert(t.SiacoinInputs[0].ParentID == ts.SiacoinInputs[0].ID, "input accepted for a parent that was not supplied")
	var h types.Hash256
	if whole {
		h = s.WholeSigHash(t, sig.ParentID, sig.PublicKeyIndex, sig.Timelock, sig.CoveredFields.Signatures)
	} else {
		h = s.PartialSigHash(t, sig.CoveredFields)
	}
	var pk types.PublicKey
	var sg types.Signature
	copy(pk[:], uc.PublicKeys[0].Key)
	copy(sg[:], sig.Signature)
	vh.Assert(vh.SigOK(pk, h, sg), "v1 input accepted without a valid signature of its key over the covered content")
	if whole {
		vh.Reach("accepted-whole")
	} else {
		vh.Reach("accepted-partial")
	}
}
