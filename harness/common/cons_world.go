package consensus

import (
	"time"

	"go.sia.tech/core/internal/vh"
	"go.sia.tech/core/types"
)

// vhWorld: a fully symbolic network and state with two stated cuts:
//   - all 11 previous timestamps are one symbolic instant (the median is an
//     arbitrary value; the sort itself is exercised in C13),
//   - the accumulator has exactly 4 leaves (one tree of height 2), so parents
//     carried in transactions have 2-hash proofs at concrete positions.
func vhWorld(name string) (*Network, State) {
	n := vhNetwork(name + ".net")
	s := vhState(name+".s", n)
	var t time.Time
	vh.Fill(name+".median", &t)
	for i := range s.PrevTimestamps {
		s.PrevTimestamps[i] = t
	}
	s.Elements.NumLeaves = 4
	vh.Assume(s.Index.Height >= 11)
	vh.Assume(s.Index.Height < 1<<62)
	// I2: the unclaimed siafund pool is part of the supply (< 2^120)
	vh.Assume(s.SiafundTaxRevenue.Hi < 1<<56)
	return n, s
}

func vhProof(name string, se *types.StateElement, k uint64) {
	se.LeafIndex = k
	se.MerkleProof = make([]types.Hash256, 2)
	vh.Fill(name, &se.MerkleProof)
}

func vhBit(mask, bit, n int) int {
	if mask&(1<<bit) != 0 {
		return n
	}
	return 0
}

// vhV1Txn builds a v1 transaction of the given shape with its supplement; all
// contents symbolic. Each contract has 2 valid and 2 missed outputs.
func vhV1Txn(name string, mask, n int) (types.Transaction, V1TransactionSupplement) {
	var t types.Transaction
	var ts V1TransactionSupplement
	t.SiacoinInputs = make([]types.SiacoinInput, vhBit(mask, 0, n))
	t.SiacoinOutputs = make([]types.SiacoinOutput, vhBit(mask, 1, n))
	t.FileContracts = make([]types.FileContract, vhBit(mask, 2, n))
	t.FileContractRevisions = make([]types.FileContractRevision, vhBit(mask, 3, n))
	t.StorageProofs = make([]types.StorageProof, vhBit(mask, 4, n))
	t.SiafundInputs = make([]types.SiafundInput, vhBit(mask, 5, n))
	t.SiafundOutputs = make([]types.SiafundOutput, vhBit(mask, 6, n))
	t.MinerFees = make([]types.Currency, vhBit(mask, 7, n))
	t.ArbitraryData = make([][]byte, vhBit(mask, 8, n))
	t.Signatures = make([]types.TransactionSignature, vhBit(mask, 9, n))
	nkeys := vh.Param("nkeys", 1)
	uc := func(u *types.UnlockConditions) {
		u.PublicKeys = make([]types.UnlockKey, nkeys)
		for i := range u.PublicKeys {
			u.PublicKeys[i].Key = make([]byte, 32)
		}
	}
	for i := range t.SiacoinInputs {
		uc(&t.SiacoinInputs[i].UnlockConditions)
	}
	for i := range t.SiafundInputs {
		uc(&t.SiafundInputs[i].UnlockConditions)
	}
	for i := range t.FileContracts {
		t.FileContracts[i].ValidProofOutputs = make([]types.SiacoinOutput, 2)
		t.FileContracts[i].MissedProofOutputs = make([]types.SiacoinOutput, 2)
	}
	for i := range t.FileContractRevisions {
		uc(&t.FileContractRevisions[i].UnlockConditions)
		t.FileContractRevisions[i].FileContract.ValidProofOutputs = make([]types.SiacoinOutput, 2)
		t.FileContractRevisions[i].FileContract.MissedProofOutputs = make([]types.SiacoinOutput, 2)
	}
	for i := range t.StorageProofs {
		t.StorageProofs[i].Proof = make([]types.Hash256, vh.Param("splen", 1))
	}
	for i := range t.ArbitraryData {
		t.ArbitraryData[i] = make([]byte, vh.Param("arblen", 2))
	}
	for i := range t.Signatures {
		t.Signatures[i].Signature = make([]byte, 64)
		if cf := vh.Param("cflen", 0); cf > 0 {
			t.Signatures[i].CoveredFields.SiacoinInputs = make([]uint64, cf)
			t.Signatures[i].CoveredFields.Signatures = make([]uint64, cf)
		}
	}
	vh.Fill(name, &t)
	// key algorithm: forked among ed25519 / entropy / unknown for the first key
	if nkeys > 0 && vh.Param("fork_alg", 0) == 1 {
		alg := []types.Specifier{types.SpecifierEd25519, types.SpecifierEntropy, types.NewSpecifier("other")}[vh.Choice(name+".alg", 3)]
		vh.ForEach(&t, func(k *types.UnlockKey) { k.Algorithm = alg })
	} else {
		vh.ForEach(&t, func(k *types.UnlockKey) { k.Algorithm = types.SpecifierEd25519 })
	}

	ts.SiacoinInputs = make([]types.SiacoinElement, len(t.SiacoinInputs))
	ts.SiafundInputs = make([]types.SiafundElement, len(t.SiafundInputs))
	ts.RevisedFileContracts = make([]types.FileContractElement, len(t.FileContractRevisions))
	ts.StorageProofs = make([]V1StorageProofSupplement, len(t.StorageProofs))
	for i := range ts.RevisedFileContracts {
		ts.RevisedFileContracts[i].FileContract.ValidProofOutputs = make([]types.SiacoinOutput, 2)
		ts.RevisedFileContracts[i].FileContract.MissedProofOutputs = make([]types.SiacoinOutput, 2)
	}
	for i := range ts.StorageProofs {
		ts.StorageProofs[i].FileContract.FileContract.ValidProofOutputs = make([]types.SiacoinOutput, 2)
		ts.StorageProofs[i].FileContract.FileContract.MissedProofOutputs = make([]types.SiacoinOutput, 2)
	}
	vh.Fill(name+".supp", &ts)
	// elements supplied by the supplement were created by earlier blocks
	for i := range ts.SiacoinInputs {
		ts.SiacoinInputs[i].ID = vh.GenuineID(name + ".supp.sc" + string(rune('0'+i)))
	}
	for i := range ts.SiafundInputs {
		ts.SiafundInputs[i].ID = vh.GenuineID(name + ".supp.sf" + string(rune('0'+i)))
	}
	for i := range ts.RevisedFileContracts {
		ts.RevisedFileContracts[i].ID = vh.GenuineID(name + ".supp.fc" + string(rune('0'+i)))
	}
	for i := range ts.StorageProofs {
		ts.StorageProofs[i].FileContract.ID = vh.GenuineID(name + ".supp.fc" + string(rune('5'+i)))
	}
	return t, ts
}

// vhGenuineV1 states the representation invariant for elements that a valid
// history can contain (I2-I4 of DESIGN.md), in the cheap form used by the
// no-panic harnesses: every genuine currency value is below 2^120 (the total
// supply is below 2^116 for the next several thousand years), siafund values
// are <= 10000 and their ClaimStart does not exceed the current pool.
func vhGenuineV1(s State, ts V1TransactionSupplement) {
	ok := true
	small := func(c types.Currency) { ok = vh.And(ok, c.Hi < 1<<56) }
	for _, e := range ts.SiacoinInputs {
		small(e.SiacoinOutput.Value)
	}
	small(s.SiafundTaxRevenue)
	for _, e := range ts.SiafundInputs {
		ok = vh.And(ok, e.SiafundOutput.Value <= 10000, e.ClaimStart.Cmp(s.SiafundTaxRevenue) <= 0)
	}
	contract := func(fc types.FileContract) {
		small(fc.Payout)
		for _, o := range fc.ValidProofOutputs {
			small(o.Value)
		}
		for _, o := range fc.MissedProofOutputs {
			small(o.Value)
		}
	}
	for _, e := range ts.RevisedFileContracts {
		contract(e.FileContract)
	}
	for _, e := range ts.StorageProofs {
		contract(e.FileContract.FileContract)
	}
	vh.Assume(ok)
}

// vhV2Txn builds a v2 transaction of the given shape; all contents symbolic.
// Parents carry 2-hash proofs at concrete leaf positions (or are ephemeral when
// eph is set); policies are of kind pk (0), threshold 1-of-[pk] (1), or unlock
// conditions with one key (2); resKind selects renewal (0), storage proof (1),
// expiration (2).
func vhV2Txn(name string, mask, n int, resKind, polKind int, eph bool) types.V2Transaction {
	var t types.V2Transaction
	t.SiacoinInputs = make([]types.V2SiacoinInput, vhBit(mask, 0, n))
	t.SiacoinOutputs = make([]types.SiacoinOutput, vhBit(mask, 1, n))
	t.SiafundInputs = make([]types.V2SiafundInput, vhBit(mask, 2, n))
	t.SiafundOutputs = make([]types.SiafundOutput, vhBit(mask, 3, n))
	t.FileContracts = make([]types.V2FileContract, vhBit(mask, 4, n))
	t.FileContractRevisions = make([]types.V2FileContractRevision, vhBit(mask, 5, n))
	t.FileContractResolutions = make([]types.V2FileContractResolution, vhBit(mask, 6, n))
	t.Attestations = make([]types.Attestation, vhBit(mask, 7, n))
	t.ArbitraryData = make([]byte, vhBit(mask, 8, n))
	if mask&(1<<9) != 0 {
		t.NewFoundationAddress = new(types.Address)
	}
	pol := func(sp *types.SatisfiedPolicy) {
		switch polKind {
		case 0:
			sp.Policy = types.PolicyPublicKey(types.PublicKey{})
			sp.Signatures = make([]types.Signature, 1)
		case 1:
			sp.Policy = types.PolicyThreshold(1, []types.SpendPolicy{types.PolicyPublicKey(types.PublicKey{}), types.PolicyHash(types.Hash256{})})
			sp.Signatures = make([]types.Signature, 1)
			sp.Preimages = make([][32]byte, 1)
		case 2:
			uc := types.UnlockConditions{PublicKeys: []types.UnlockKey{{Algorithm: types.SpecifierEd25519, Key: make([]byte, 32)}}}
			sp.Policy = types.SpendPolicy{Type: types.PolicyTypeUnlockConditions(uc)}
			sp.Signatures = make([]types.Signature, 1)
		}
	}
	for i := range t.SiacoinInputs {
		pol(&t.SiacoinInputs[i].SatisfiedPolicy)
	}
	for i := range t.SiafundInputs {
		pol(&t.SiafundInputs[i].SatisfiedPolicy)
	}
	for i := range t.FileContractResolutions {
		switch resKind {
		case 0:
			t.FileContractResolutions[i].Resolution = new(types.V2FileContractRenewal)
		case 1:
			sp := new(types.V2StorageProof)
			sp.Proof = make([]types.Hash256, vh.Param("splen", 1))
			t.FileContractResolutions[i].Resolution = sp
		case 2:
			t.FileContractResolutions[i].Resolution = new(types.V2FileContractExpiration)
		}
	}
	for i := range t.Attestations {
		t.Attestations[i].Key = "k"
		t.Attestations[i].Value = make([]byte, 1)
	}
	vh.Fill(name, &t)
	// restore the algorithm of uc keys (Fill made it symbolic)
	vh.ForEach(&t, func(k *types.UnlockKey) { k.Algorithm = types.SpecifierEd25519 })
	// parents: leaf positions and proofs, IDs of earlier-block elements
	k := uint64(0)
	se := func(nm string, e *types.StateElement, id *[32]byte) {
		if eph {
			e.LeafIndex = types.UnassignedLeafIndex
			e.MerkleProof = nil
			return
		}
		vhProof(nm+".proof", e, k%4)
		*id = vh.GenuineID(nm)
		k++
	}
	for i := range t.SiacoinInputs {
		se(name+".sc"+string(rune('0'+i)), &t.SiacoinInputs[i].Parent.StateElement, (*[32]byte)(&t.SiacoinInputs[i].Parent.ID))
	}
	for i := range t.SiafundInputs {
		se(name+".sf"+string(rune('0'+i)), &t.SiafundInputs[i].Parent.StateElement, (*[32]byte)(&t.SiafundInputs[i].Parent.ID))
	}
	for i := range t.FileContractRevisions {
		e := &t.FileContractRevisions[i].Parent
		vhProof(name+".rev"+string(rune('0'+i))+".proof", &e.StateElement, k%4)
		e.ID = vh.GenuineID(name + ".fc" + string(rune('0'+i)))
		k++
	}
	for i := range t.FileContractResolutions {
		e := &t.FileContractResolutions[i].Parent
		vhProof(name+".res"+string(rune('0'+i))+".proof", &e.StateElement, k%4)
		e.ID = vh.GenuineID(name + ".fc" + string(rune('5'+i)))
		k++
		if sp, ok := t.FileContractResolutions[i].Resolution.(*types.V2StorageProof); ok {
			vhProof(name+".res"+string(rune('0'+i))+".index.proof", &sp.ProofIndex.StateElement, k%4)
			sp.ProofIndex.ID = vh.GenuineID(name + ".cie" + string(rune('0'+i)))
			k++
		}
	}
	return t
}

// vhGenuineV2: invariant for v2 parents that are proven in the accumulator
// (values below 2^120, siafund bounds, contract value relations).
func vhGenuineV2(s State, t *types.V2Transaction) {
	ok := true
	small := func(c types.Currency) { ok = vh.And(ok, c.Hi < 1<<56) }
	small(s.SiafundTaxRevenue)
	for i := range t.SiacoinInputs {
		if t.SiacoinInputs[i].Parent.StateElement.LeafIndex != types.UnassignedLeafIndex {
			small(t.SiacoinInputs[i].Parent.SiacoinOutput.Value)
		}
	}
	for i := range t.SiafundInputs {
		p := &t.SiafundInputs[i].Parent
		if p.StateElement.LeafIndex != types.UnassignedLeafIndex {
			ok = vh.And(ok, p.SiafundOutput.Value <= 10000, p.ClaimStart.Cmp(s.SiafundTaxRevenue) <= 0)
		}
	}
	contract := func(fc types.V2FileContract) {
		small(fc.RenterOutput.Value)
		small(fc.HostOutput.Value)
		ok = vh.And(ok, fc.MissedHostValue.Cmp(fc.HostOutput.Value) <= 0, fc.TotalCollateral.Cmp(fc.HostOutput.Value) <= 0, fc.Filesize <= fc.Capacity)
	}
	for i := range t.FileContractRevisions {
		contract(t.FileContractRevisions[i].Parent.V2FileContract)
	}
	for i := range t.FileContractResolutions {
		contract(t.FileContractResolutions[i].Parent.V2FileContract)
	}
	vh.Assume(ok)
}
