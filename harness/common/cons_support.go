package consensus

import (
	"go.sia.tech/core/internal/vh"
	"go.sia.tech/core/types"
)

// vhNetwork returns a network whose every parameter is symbolic.
func vhNetwork(name string) *Network {
	n := new(Network)
	vh.Fill(name, n)
	return n
}

// vhState returns a state whose every field is symbolic.
func vhState(name string, n *Network) State {
	var s State
	vh.Fill(name, &s)
	s.Network = n
	return s
}

var _ = types.VoidAddress
