package gateway

import (
	"go.sia.tech/core/consensus"
	"go.sia.tech/core/types"
)

func vhShapers() {}

// Request and response views of one RPC share a struct: the fields that belong
// to the other direction are not transmitted (cleared before comparison).
func vhNormalize(id string, v any) {
	switch r := v.(type) {
	case *RPCShareNodes:
		if id == "RPCShareNodesReq" {
			r.Peers = nil
		}
	case *RPCDiscoverIP:
		if id == "RPCDiscoverIPReq" {
			r.IP = ""
		}
	case *RPCSendHeaders:
		if id == "RPCSendHeadersReq" {
			r.Headers, r.Remaining = nil, 0
		} else {
			r.Index, r.Max = types.ChainIndex{}, 0
		}
	case *RPCSendV2Blocks:
		if id == "RPCSendV2BlocksReq" {
			r.Blocks, r.Remaining = nil, 0
		}
	case *RPCSendTransactions:
		if id == "RPCSendTransactionsReq" {
			r.Transactions, r.V2Transactions = nil, nil
		}
	case *RPCSendCheckpoint:
		if id == "RPCSendCheckpointReq" {
			r.Block, r.State = types.Block{}, consensus.State{}
		}
	case *RPCRelayV2Header:
		if id == "RPCRelayV2HeaderResp" {
			r.Header = types.BlockHeader{}
		}
	case *RPCRelayV2BlockOutline:
		if id == "RPCRelayV2BlockOutlineResp" {
			r.Block = V2BlockOutline{}
		}
	case *RPCRelayV2TransactionSet:
		if id == "RPCRelayV2TransactionSetResp" {
			r.Index, r.Transactions = types.ChainIndex{}, nil
		}
	}
}
