package types

import "go.sia.tech/core/internal/vh"

// vhShapePolicy chooses a policy kind; nested policies (inside a threshold)
// are limited to leaf kinds so the shape space stays finite.
func vhShapePolicy(p *SpendPolicy, n int) {
	kinds := 7
	if vh.Param("policy_leaf_only", 0) == 1 {
		kinds = 5
	}
	switch vh.Choice("policy.kind", kinds) {
	case 0:
		p.Type = PolicyTypeAbove(0)
	case 1:
		p.Type = PolicyTypePublicKey{}
	case 2:
		p.Type = PolicyTypeHash{}
	case 3:
		p.Type = PolicyTypeOpaque{}
	case 4:
		p.Type = PolicyTypeAfter{}
	case 5:
		uc := UnlockConditions{}
		if n > 0 {
			uc.PublicKeys = make([]UnlockKey, n)
			for i := range uc.PublicKeys {
				uc.PublicKeys[i].Key = make([]byte, 32)
			}
		}
		p.Type = PolicyTypeUnlockConditions(uc)
	case 6:
		th := PolicyTypeThreshold{}
		if n > 0 {
			th.Of = make([]SpendPolicy, n)
			for i := range th.Of {
				// leaves only below a threshold: public key or opaque
				if i%2 == 0 {
					th.Of[i].Type = PolicyTypePublicKey{}
				} else {
					th.Of[i].Type = PolicyTypeOpaque{}
				}
			}
		}
		p.Type = th
	}
}

func vhShapers() {
	vh.RegisterShaper(vhShapePolicy)
	vh.RegisterShaper(vhShapeResolution)
}

func vhShapeResolution(r *V2FileContractResolutionType, n int) {
	switch vh.Choice("resolution.kind", 3) {
	case 0:
		v := new(V2FileContractRenewal)
		vh.Shape(v, n)
		*r = v
	case 1:
		v := new(V2StorageProof)
		vh.Shape(v, n)
		*r = v
	case 2:
		*r = new(V2FileContractExpiration)
	}
}

// ids whose encoding contains v1 (variable-length) currencies
var vhV1Ids = map[string]bool{"Transaction": true, "V1Block": true, "V2Block": true, "FileContract": true,
	"FileContractRevision": true, "FileContractElement": true}

// vhCurLen constrains c to encode to exactly l bytes in the v1 format.
func vhCurLen(c *Currency, l int) {
	switch {
	case l == 0:
		vh.Assume(vh.And(c.Lo == 0, c.Hi == 0))
	case l <= 8:
		vh.Assume(c.Hi == 0)
		if l < 8 {
			vh.Assume(c.Lo < 1<<(8*uint(l)))
		}
		vh.Assume(c.Lo >= 1<<(8*uint(l-1)))
	default:
		if l < 16 {
			vh.Assume(c.Hi < 1<<(8*uint(l-8)))
		}
		vh.Assume(c.Hi >= 1<<(8*uint(l-9)))
	}
}

// vhU64Len constrains a uint64 that is encoded as a v1 currency to l bytes (max 8).
func vhU64Len(v *uint64, l int) {
	if l > 8 {
		l = 8
	}
	c := Currency{Lo: *v}
	vhCurLen(&c, l)
}

func vhNormalize(id string, v any) {
	// StateElement.shared is documented as not transmitted
	vh.ForEach(v, func(se *StateElement) { se.shared = false })
	if vhV1Ids[id] {
		lens := []int{0, 1, 8, 9, 16}
		l := lens[vh.Choice("v1len", len(lens))]
		vh.ForEach(v, func(c *Currency) { vhCurLen(c, l) })
		vh.ForEach(v, func(o *SiafundOutput) { vhU64Len(&o.Value, l) })
	}
	// the v1 view of a block does not transmit the v2 data
	if b, ok := v.(*V1Block); ok {
		b.V2 = nil
	}
	// a v1 revision does not transmit Payout; decoding sets the documented sentinel
	vh.ForEach(v, func(r *FileContractRevision) { r.FileContract.Payout = MaxCurrency })
}
