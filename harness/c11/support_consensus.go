package consensus

import (
	"time"

	"go.sia.tech/core/internal/vh"
	"go.sia.tech/core/types"
)

func vhShapers() {}

// documented normalisations for consensus objects
func vhNormalize(id string, v any) {
	vh.ForEach(v, func(c *types.Currency) {
		// v1 currencies inside supplements (file contracts): one byte-length class
		if id == "V1BlockSupplement" || id == "V1TransactionSupplement" || id == "V1StorageProofSupplement" {
			vh.Assume(vh.And(c.Hi == 0, c.Lo < 256, c.Lo > 0))
		}
	})
	// StateElement.shared is documented as not transmitted
	vh.ForEach(v, func(se *types.StateElement) { *se = se.Copy() })
	if s, ok := v.(*State); ok {
		// network parameters are not encoded
		s.Network = nil
		// unused timestamp slots are not transmitted: either all 11 are used, or
		// (young chain) only height+1 of them and the rest are zero
		if vh.Choice("young", 2) == 0 {
			vh.Assume(vh.And(s.Index.Height >= 11, s.Index.Height < 1<<62))
		} else {
			h := vh.Choice("height", 10)
			s.Index.Height = uint64(h)
			for i := h + 1; i < len(s.PrevTimestamps); i++ {
				s.PrevTimestamps[i] = time.Time{}
			}
		}
		vhNormAcc(&s.Elements)
	}
	if a, ok := v.(*ElementAccumulator); ok {
		vhNormAcc(a)
	}
}

// unused accumulator slots are not transmitted: fix the leaf count and clear
// the slots without a tree
func vhNormAcc(a *ElementAccumulator) {
	a.NumLeaves = uint64(vh.Param("numleaves", 5))
	for i := range a.Trees {
		if a.NumLeaves&(1<<i) == 0 {
			a.Trees[i] = types.Hash256{}
		}
	}
}
