package gateway

import (
	"go.sia.tech/core/consensus"
	"go.sia.tech/core/internal/vh"
	"go.sia.tech/core/types"
)

// compact relay: the outline has the block's ID whatever subset is omitted,
// completes to exactly the block given the omitted transactions (any order,
// with extras), and otherwise reports exactly the missing hashes
func VH_C18_Outline() {
	n := new(consensus.Network)
	vh.Fill("net", n)
	var cs consensus.State
	vh.Fill("cs", &cs)
	cs.Network = n
	cs.Index.Height = 100
	cs.Elements.NumLeaves = 3
	var b types.Block
	b.MinerPayouts = make([]types.SiacoinOutput, 1)
	b.V2 = &types.V2BlockData{Transactions: make([]types.V2Transaction, 2)}
	for i := range b.V2.Transactions {
		b.V2.Transactions[i].ArbitraryData = make([]byte, 2)
	}
	vh.Fill("b", &b)
	b.V2.Height = 101
	vh.Assume(vh.And(b.V2.Transactions[0].MinerFee.Hi == 0, b.V2.Transactions[1].MinerFee.Hi == 0))
	fees := b.V2.Transactions[0].MinerFee.Add(b.V2.Transactions[1].MinerFee)
	vh.Assume(cs.Network.InitialCoinbase.Hi < 1<<40)
	vh.Assume(cs.Network.MinimumCoinbase.Hi < 1<<40)
	b.MinerPayouts[0].Value = cs.BlockReward().Add(fees)
	b.V2.Commitment = cs.Commitment(b.MinerPayouts[0].Address, nil, b.V2.Transactions)
	// the two transactions are different (identical ones are one pool entry)
	vh.Assume(b.V2.Transactions[0].FullHash() != b.V2.Transactions[1].FullHash())

	omit := vh.Choice("omitmask", 4) // which transactions the peer already has (omitted from the outline)
	var have []types.V2Transaction
	for i := 0; i < 2; i++ {
		if omit&(1<<i) != 0 {
			have = append(have, b.V2.Transactions[i])
		}
	}
	bo := OutlineBlock(b, nil, have)
	vh.Assert(bo.ID(cs) == b.ID(), "outline ID differs from the block ID")
	// nothing supplied: exactly the omitted hashes are missing
	miss := bo.Missing()
	want := 0
	for i := 0; i < 2; i++ {
		if omit&(1<<i) != 0 {
			want++
		}
	}
	vh.Assert(len(miss) == want, "wrong number of missing hashes")
	// supplied in reverse order with an unrelated extra transaction
	var extra types.V2Transaction
	extra.ArbitraryData = make([]byte, 3)
	vh.Fill("extra", &extra)
	pool := []types.V2Transaction{extra}
	for i := len(have) - 1; i >= 0; i-- {
		pool = append(pool, have[i])
	}
	got, missing := bo.Complete(cs, nil, pool)
	vh.Assert(len(missing) == 0, "Complete reports missing transactions although all were supplied")
	vh.Assert(vh.Eq(got, b), "completed block differs from the original block")
	vh.Assert(got.ID() == b.ID(), "completed block has a different ID")
	vh.Reach("end")
}
