package types

import (
	"bytes"
	"encoding/binary"

	"go.sia.tech/core/blake2b"
	"go.sia.tech/core/internal/vh"
)

// reference leaf hashes: the accumulator's definition (consensus/merkle.go),
// restated here independently of the copies in multiproof.go
func vhRefLeaf(elemHash Hash256, idx uint64) Hash256 {
	buf := make([]byte, 1+32+8+1)
	copy(buf[1:], elemHash[:])
	binary.LittleEndian.PutUint64(buf[33:], idx)
	return HashBytes(buf)
}

func vhNaiveRoot18(hs []Hash256) Hash256 {
	if len(hs) == 1 {
		return hs[0]
	}
	m := len(hs) / 2
	return blake2b.SumPair(vhNaiveRoot18(hs[:m]), vhNaiveRoot18(hs[m:]))
}

func vhNaivePath18(hs []Hash256, idx int) []Hash256 {
	if len(hs) == 1 {
		return nil
	}
	m := len(hs) / 2
	if idx < m {
		return append(vhNaivePath18(hs[:m], idx), vhNaiveRoot18(hs[m:]))
	}
	return append(vhNaivePath18(hs[m:], idx-m), vhNaiveRoot18(hs[:m]))
}

// proofs of every leaf in the forest over hs (trees by the bits of len(hs))
func vhForestProofs(hs []Hash256) [][]Hash256 {
	n := len(hs)
	proofs := make([][]Hash256, n)
	start := 0
	for h := 62; h >= 0; h-- {
		if n&(1<<h) == 0 {
			continue
		}
		sub := hs[start : start+1<<h]
		for i := range sub {
			proofs[start+i] = vhNaivePath18(sub, i)
		}
		start += 1 << h
	}
	return proofs
}

// multiproof encode/decode restores every proof bit for bit
func VH_C18_MultiproofLossless() {
	n := 4 + vh.Choice("n", vh.Param("maxn", 7)-3) // 4..maxn leaves
	// genuine elements: kind by position mod 4 (siacoin, siafund, v2 contract, chain index)
	sces := make([]SiacoinElement, n)
	sfes := make([]SiafundElement, n)
	fces := make([]V2FileContractElement, n)
	cies := make([]ChainIndexElement, n)
	lh := make([]Hash256, n)
	for i := 0; i < n; i++ {
		nm := "e" + string(rune('0'+i))
		switch i % 4 {
		case 0:
			vh.Fill(nm, &sces[i])
			lh[i] = vhRefLeaf(hashAll("leaf/siacoin", sces[i].ID, V2SiacoinOutput(sces[i].SiacoinOutput), sces[i].MaturityHeight), uint64(i))
		case 1:
			vh.Fill(nm, &sfes[i])
			lh[i] = vhRefLeaf(hashAll("leaf/siafund", sfes[i].ID, V2SiafundOutput(sfes[i].SiafundOutput), V2Currency(sfes[i].ClaimStart)), uint64(i))
		case 2:
			vh.Fill(nm, &fces[i])
			lh[i] = vhRefLeaf(hashAll("leaf/v2filecontract", fces[i].ID, fces[i].V2FileContract), uint64(i))
		case 3:
			vh.Fill(nm, &cies[i])
			lh[i] = vhRefLeaf(hashAll("leaf/chainindex", cies[i].ID, cies[i].ChainIndex), uint64(i))
		}
	}
	proofs := vhForestProofs(lh)
	se := func(i int) StateElement {
		return StateElement{LeafIndex: uint64(i), MerkleProof: append([]Hash256(nil), proofs[i]...)}
	}
	// a transaction set using leaves 0 (siacoin), 1 (siafund), 2 (contract, resolved
	// with a storage proof whose index is leaf 3) and, if present, leaf 4 in a second transaction
	var t1 V2Transaction
	t1.SiacoinInputs = make([]V2SiacoinInput, 1)
	t1.SiafundInputs = make([]V2SiafundInput, 1)
	t1.FileContractResolutions = make([]V2FileContractResolution, 1)
	vh.Fill("t1", &t1)
	t1.SiacoinInputs[0].Parent = sces[0]
	t1.SiacoinInputs[0].Parent.StateElement = se(0)
	t1.SiacoinInputs[0].SatisfiedPolicy = SatisfiedPolicy{Policy: PolicyThreshold(0, nil)}
	t1.SiafundInputs[0].Parent = sfes[1]
	t1.SiafundInputs[0].Parent.StateElement = se(1)
	t1.SiafundInputs[0].SatisfiedPolicy = SatisfiedPolicy{Policy: PolicyThreshold(0, nil)}
	t1.FileContractResolutions[0].Parent = fces[2]
	t1.FileContractResolutions[0].Parent.StateElement = se(2)
	sp := &V2StorageProof{ProofIndex: cies[3], Proof: make([]Hash256, 1)}
	vh.Fill("sp", &sp.Leaf)
	vh.Fill("spproof", &sp.Proof)
	sp.ProofIndex.StateElement = se(3)
	t1.FileContractResolutions[0].Resolution = sp
	txns := []V2Transaction{t1}
	if n >= 5 {
		var t2 V2Transaction
		t2.SiacoinInputs = make([]V2SiacoinInput, 1)
		t2.SiacoinOutputs = make([]SiacoinOutput, 1)
		vh.Fill("t2", &t2)
		t2.SiacoinInputs[0].Parent = sces[4]
		t2.SiacoinInputs[0].Parent.StateElement = se(4)
		t2.SiacoinInputs[0].SatisfiedPolicy = SatisfiedPolicy{Policy: PolicyThreshold(0, nil)}
		txns = append(txns, t2)
	}
	var buf bytes.Buffer
	e := NewEncoder(&buf)
	V2TransactionsMultiproof(txns).EncodeTo(e)
	e.Flush()
	d := NewBufDecoder(buf.Bytes())
	var dec V2TransactionsMultiproof
	dec.DecodeFrom(d)
	vh.Assert(d.Err() == nil, "multiproof decoding fails")
	vh.Assert(len(dec) == len(txns), "transaction count changed")
	if len(dec) != len(txns) {
		return
	}
	for i := range txns {
		vh.ForEach(&txns[i], func(se *StateElement) { se.shared = false })
		vh.ForEach(&dec[i], func(se *StateElement) { se.shared = false })
		vh.Assert(vh.Eq(txns[i], dec[i]), "transaction (incl. every element proof) not restored bit for bit")
		vh.Assert(txns[i].FullHash() == dec[i].FullHash(), "full hash changed")
	}
	vh.Reach("end")
}
