package rhp

import (
	"go.sia.tech/core/blake2b"
	"go.sia.tech/core/internal/vh"
	"go.sia.tech/core/types"
)

// plainly defined Merkle tree (RFC 6962 shape): split at the largest power of
// two strictly below n
func vhTree(hs []types.Hash256) types.Hash256 {
	switch len(hs) {
	case 0:
		return types.Hash256{}
	case 1:
		return hs[0]
	}
	k := 1
	for k*2 < len(hs) {
		k *= 2
	}
	return blake2b.SumPair(vhTree(hs[:k]), vhTree(hs[k:]))
}

// sector roots are Merkle roots of sector data: ideal-hash outputs of unknown
// pre-images, never equal to a node hash derived from other roots
func vhSectorRoots(name string, n int) []types.Hash256 {
	r := make([]types.Hash256, n)
	for i := range r {
		r[i] = vh.GenuineID(name + ".sector" + string(rune('0'+i)))
	}
	return r
}

func vhHashesEq(a, b []types.Hash256) bool {
	if len(a) != len(b) {
		return false
	}
	r := true
	for i := range a {
		r = vh.And(r, a[i] == b[i])
	}
	return r
}

// roots: optimised code == plain tree; range / append / free proofs built by
// the library are accepted with the right roots (completeness), for every n,
// every range, every freed pair
func VH_C16_RootsAndCompleteness() {
	maxN := vh.Param("maxn", 8)
	n := 1 + vh.Choice("n", maxN)
	roots := make([]types.Hash256, n)
	vh.Fill("roots", &roots)
	root := vhTree(roots)
	vh.Assert(MetaRoot(roots) == root, "MetaRoot differs from the plain Merkle tree")
	var acc blake2b.Accumulator
	for _, r := range roots {
		acc.AddLeaf(r)
	}
	vh.Assert(types.Hash256(acc.Root()) == root, "blake2b.Accumulator root differs from the plain Merkle tree")
	// every range
	for start := 0; start < n; start++ {
		for end := start + 1; end <= n; end++ {
			proof := BuildSectorRootsProof(roots, uint64(start), uint64(end))
			vh.Assert(VerifySectorRootsProof(proof, roots[start:end], uint64(n), uint64(start), uint64(end), root), "honest sector-roots range proof rejected")
		}
	}
	// append batches
	maxA := vh.Param("maxappend", 3)
	app := make([]types.Hash256, maxA)
	vh.Fill("appended", &app)
	for k := 1; k <= maxA; k++ {
		sub, newRoot := BuildAppendProof(roots, app[:k])
		all := append(append([]types.Hash256(nil), roots...), app[:k]...)
		vh.Assert(newRoot == vhTree(all), "append proof new root differs from the plain tree")
		vh.Assert(VerifyAppendSectorsProof(uint64(n), sub, app[:k], root, newRoot), "honest append proof rejected")
	}
	// free one or two sectors (swap with the tail, then trim)
	for i := 0; i < n; i++ {
		for j := -1; j < n; j++ {
			if j == i || (j >= 0 && j < i) {
				continue
			}
			freed := []uint64{uint64(i)}
			if j >= 0 {
				freed = append(freed, uint64(j))
			}
			if len(freed) > n {
				continue
			}
			after := append([]types.Hash256(nil), roots...)
			for k, f := range freed {
				after[f], after[n-k-1] = after[n-k-1], after[f]
			}
			after = after[:n-len(freed)]
			tree, leaf := BuildFreeSectorsProof(roots, freed)
			vh.Assert(VerifyFreeSectorsProof(tree, leaf, freed, uint64(n), root, vhTree(after)), "honest free-sectors proof rejected")
		}
	}
	vh.Reach("end")
}

// soundness of the range proof given the true count: accepted => the claimed
// roots are the true ones; a proof one hash longer or shorter is rejected
func VH_C16_RangeProofSound() {
	maxN := vh.Param("maxn", 6)
	n := 1 + vh.Choice("n", maxN)
	roots := vhSectorRoots("roots", n)
	root := vhTree(roots)
	start := vh.Choice("start", n)
	end := start + 1 + vh.Choice("len", n-start)
	honest := BuildSectorRootsProof(roots, uint64(start), uint64(end))
	delta := vh.Choice("lendelta", 3) - 1 // -1, 0, +1
	L := len(honest) + delta
	if L < 0 {
		return
	}
	proof := make([]types.Hash256, L)
	vh.Fill("proof", &proof)
	claimed := make([]types.Hash256, end-start)
	vh.Fill("claimed", &claimed)
	ok := VerifySectorRootsProof(proof, claimed, uint64(n), uint64(start), uint64(end), root)
	if delta == 0 {
		vh.Assert(vh.Implies(ok, vhHashesEq(claimed, roots[start:end])), "range proof accepted for roots that are not the true ones")
		vh.Assert(vh.Implies(ok, vhHashesEq(proof, honest)), "range proof accepted with altered proof hashes")
	} else {
		vh.Assert(!ok, "range proof of the wrong length accepted")
	}
	vh.Reach("end")
}

// soundness of append and free proofs: wrong-length proofs rejected; accepted
// => new root is the root of the true result
func VH_C16_AppendFreeSound() {
	maxN := vh.Param("maxn", 6)
	n := 1 + vh.Choice("n", maxN)
	roots := vhSectorRoots("roots", n)
	root := vhTree(roots)
	which := vh.Choice("which", 2)
	if which == 0 {
		k := 1 + vh.Choice("nappend", vh.Param("maxappend", 2))
		app := make([]types.Hash256, k)
		vh.Fill("appended", &app)
		honest, _ := BuildAppendProof(roots, app)
		sub := make([]types.Hash256, len(honest))
		vh.Fill("subtrees", &sub)
		var newRoot types.Hash256
		vh.Fill("newroot", &newRoot)
		ok := VerifyAppendSectorsProof(uint64(n), sub, app, root, newRoot)
		all := append(append([]types.Hash256(nil), roots...), app...)
		vh.Assert(vh.Implies(ok, newRoot == vhTree(all)), "append proof accepted with a new root that is not the root after appending")
		if ok {
			vh.Reach("append-accepted")
		}
		return
	}
	i := vh.Choice("freed", n)
	freed := []uint64{uint64(i)}
	after := append([]types.Hash256(nil), roots...)
	after[i], after[n-1] = after[n-1], after[i]
	after = after[:n-1]
	ht, hl := BuildFreeSectorsProof(roots, freed)
	delta := vh.Choice("lendelta", 3) - 1
	if len(ht)+delta < 0 {
		return
	}
	tree := make([]types.Hash256, len(ht)+delta)
	leaf := make([]types.Hash256, len(hl))
	vh.Fill("tree", &tree)
	vh.Fill("leaf", &leaf)
	var newRoot types.Hash256
	vh.Fill("newroot", &newRoot)
	ok := VerifyFreeSectorsProof(tree, leaf, freed, uint64(n), root, newRoot)
	if delta == 0 {
		vh.Assert(vh.Implies(ok, newRoot == vhTree(after)), "free-sectors proof accepted with a new root that is not the root after freeing")
		if ok {
			vh.Reach("free-accepted")
		}
	} else {
		// single-point corruption: only the proof length (and its hashes) differ
		// from the honest proof; covered roots and both tree roots are the true ones
		ok2 := VerifyFreeSectorsProof(tree, hl, freed, uint64(n), root, vhTree(after))
		vh.Assert(!ok2, "free-sectors proof of the wrong length accepted")
	}
}
