package types

import (
	"time"

	"go.sia.tech/core/internal/vh"
)

// ---- policy shapes ----

// vhPolicy builds a policy tree: kind chosen by fork, contents symbolic.
// depth 0 allows only leaves.
func vhPolicy(name string, depth, breadth int, allowUC bool) SpendPolicy {
	kinds := 5 // above, after, pk, hash, opaque
	if depth > 0 {
		kinds = 6 // + threshold
		if allowUC {
			kinds = 7
		}
	}
	var p SpendPolicy
	switch vh.Choice(name+".kind", kinds) {
	case 0:
		p.Type = PolicyTypeAbove(vh.U64(name + ".above"))
	case 1:
		var t time.Time
		vh.Fill(name+".after", &t)
		p.Type = PolicyTypeAfter(t)
	case 2:
		var pk PublicKey
		vh.Fill(name+".pk", &pk)
		p.Type = PolicyTypePublicKey(pk)
	case 3:
		var h Hash256
		vh.Fill(name+".hash", &h)
		p.Type = PolicyTypeHash(h)
	case 4:
		var a Address
		vh.Fill(name+".opaque", &a)
		p.Type = PolicyTypeOpaque(a)
	case 5:
		n := vh.Choice(name+".nchildren", breadth+1)
		of := make([]SpendPolicy, n)
		for i := range of {
			of[i] = vhPolicy(name+".of"+string(rune('0'+i)), depth-1, breadth, false)
		}
		p.Type = PolicyTypeThreshold{N: vh.U8(name + ".n"), Of: of}
	case 6:
		nk := vh.Choice(name+".nkeys", breadth+2)
		uc := UnlockConditions{Timelock: vh.U64(name + ".timelock"), SignaturesRequired: vh.U64(name + ".sigsreq")}
		uc.PublicKeys = make([]UnlockKey, nk)
		for i := range uc.PublicKeys {
			switch vh.Choice(name+".alg"+string(rune('0'+i)), 3) {
			case 0:
				uc.PublicKeys[i].Algorithm = SpecifierEd25519
			case 1:
				uc.PublicKeys[i].Algorithm = SpecifierEntropy
			case 2:
				uc.PublicKeys[i].Algorithm = NewSpecifier("other")
			}
			uc.PublicKeys[i].Key = vh.Bytes(name+".key"+string(rune('0'+i)), 32)
		}
		p.Type = PolicyTypeUnlockConditions(uc)
	}
	return p
}

// ---- independent evaluator: the meaning of a policy ----

type vhEval struct {
	height   uint64
	median   time.Time
	sigHash  Hash256
	sigs     []Signature
	pres     [][32]byte
	si, pi   int
	policies int
}

// eval returns whether p is satisfied, consuming witnesses in order.
func (e *vhEval) eval(p SpendPolicy, top bool) bool {
	switch t := p.Type.(type) {
	case PolicyTypeAbove:
		return e.height >= uint64(t)
	case PolicyTypeAfter:
		return e.median.After(time.Time(t))
	case PolicyTypePublicKey:
		if e.si >= len(e.sigs) {
			return false
		}
		s := e.sigs[e.si]
		e.si++
		return vh.SigOK(t, e.sigHash, s)
	case PolicyTypeHash:
		if e.pi >= len(e.pres) {
			return false
		}
		pre := e.pres[e.pi]
		e.pi++
		return Hash256(vh.Sha256(pre)) == Hash256(t)
	case PolicyTypeOpaque:
		return false
	case PolicyTypeThreshold:
		e.policies += len(t.Of)
		if e.policies > 1024 || len(t.Of) > 255 {
			return false
		}
		revealed := 0
		for _, sp := range t.Of {
			switch sp.Type.(type) {
			case PolicyTypeUnlockConditions:
				return false
			case PolicyTypeOpaque:
				continue
			}
			// exactly N sub-policies may be revealed, and each revealed one must hold
			if revealed == int(t.N) {
				return false
			}
			if !e.eval(sp, false) {
				return false
			}
			revealed++
		}
		return revealed == int(t.N)
	case PolicyTypeUnlockConditions:
		if !top {
			return false
		}
		if e.height < t.Timelock {
			return false
		}
		need := t.SignaturesRequired
		for i, k := range t.PublicKeys {
			if need == 0 || need > uint64(len(t.PublicKeys)-i) || need > uint64(len(e.sigs)-e.si) {
				break
			}
			switch k.Algorithm {
			case SpecifierEntropy:
				return false
			case SpecifierEd25519:
				var pk PublicKey
				copy(pk[:], k.Key)
				if vh.SigOK(pk, e.sigHash, e.sigs[e.si]) {
					e.si++
					need--
				}
			default:
				e.si++
				need--
			}
		}
		return need == 0
	}
	return false
}

func vhWitnesses(maxSigs, maxPres int) ([]Signature, [][32]byte) {
	ns := vh.Choice("nsigs", maxSigs+1)
	np := vh.Choice("npres", maxPres+1)
	sigs := make([]Signature, ns)
	pres := make([][32]byte, np)
	vh.Fill("sigs", &sigs)
	vh.Fill("pres", &pres)
	return sigs, pres
}

// Verify(p) == nil  <=>  p's meaning holds and every witness is consumed
func VH_C14_VerifyMatchesMeaning() {
	depth := vh.Param("depth", 1)
	breadth := vh.Param("breadth", 2)
	p := vhPolicy("p", depth, breadth, true)
	height := vh.U64("height")
	var median time.Time
	vh.Fill("median", &median)
	var sigHash Hash256
	vh.Fill("sighash", &sigHash)
	sigs, pres := vhWitnesses(vh.Param("maxsigs", 3), vh.Param("maxpres", 2))

	err := p.Verify(height, median, sigHash, sigs, pres)

	e := &vhEval{height: height, median: median, sigHash: sigHash, sigs: sigs, pres: pres}
	ok := e.eval(p, true)
	want := ok && e.si == len(sigs) && e.pi == len(pres)
	vh.Assert((err == nil) == want, "Verify disagrees with the policy's meaning")
	if err == nil {
		vh.Reach("accepted")
	} else {
		vh.Reach("rejected")
	}
}

// opacity: replacing any child of a threshold by its opaque form keeps the
// address; an opaque policy is never satisfiable.
func VH_C14_OpaqueKeepsAddress() {
	breadth := vh.Param("breadth", 2)
	n := 1 + vh.Choice("nchildren", breadth)
	of := make([]SpendPolicy, n)
	for i := range of {
		of[i] = vhPolicy("of"+string(rune('0'+i)), vh.Param("depth", 1), breadth, false)
	}
	p := PolicyThreshold(vh.U8("n"), of)
	k := vh.Choice("replace", n)
	of2 := append([]SpendPolicy(nil), of...)
	of2[k] = PolicyOpaque(of[k])
	q := PolicyThreshold(p.Type.(PolicyTypeThreshold).N, of2)
	vh.Assert(p.Address() == q.Address(), "address changes when a sub-policy is replaced by its opaque form")
	// an opaque policy on its own is unusable
	var median time.Time
	var sh Hash256
	vh.Assert(of2[k].Verify(vh.U64("h"), median, sh, nil, nil) != nil, "opaque policy verifies")
	vh.Reach("end")
}

// address commitment: the address binds the policy content (same shape)
func VH_C14_AddressBindsPolicy() {
	depth := vh.Param("depth", 1)
	breadth := vh.Param("breadth", 2)
	p := vhPolicy("p", depth, breadth, false)
	q := vhPolicy("q", depth, breadth, false)
	if _, ok := p.Type.(PolicyTypeOpaque); ok {
		return
	}
	if _, ok := q.Type.(PolicyTypeOpaque); ok {
		return
	}
	// thresholds commit to children only through their opaque forms: compare
	// children's addresses rather than contents
	same := vhPolicyEqUpToOpaque(p, q)
	vh.Assert(vh.Implies(p.Address() == q.Address(), same), "two different policies share an address")
	vh.Reach("end")
}

func vhPolicyEqUpToOpaque(p, q SpendPolicy) bool {
	switch a := p.Type.(type) {
	case PolicyTypeThreshold:
		b, ok := q.Type.(PolicyTypeThreshold)
		if !ok || len(a.Of) != len(b.Of) {
			return false
		}
		r := a.N == b.N
		for i := range a.Of {
			r = vh.And(r, vh.Eq(PolicyOpaque(a.Of[i]), PolicyOpaque(b.Of[i])))
		}
		return r
	}
	return vh.Eq(p, q)
}

// standard addresses equal their policy forms
func VH_C14_StandardAddress() {
	var pk PublicKey
	vh.Fill("pk", &pk)
	vh.Assert(StandardAddress(pk) == PolicyPublicKey(pk).Address(), "StandardAddress differs from PolicyPublicKey(pk).Address()")
	uc := StandardUnlockConditions(pk)
	vh.Assert(StandardUnlockHash(pk) == uc.UnlockHash(), "StandardUnlockHash differs from UnlockConditions.UnlockHash()")
	vh.Assert(SpendPolicy{PolicyTypeUnlockConditions(uc)}.Address() == uc.UnlockHash(), "uc policy address differs from unlock hash")
	vh.Reach("end")
}
