package consensus

import (
	"go.sia.tech/core/internal/vh"
	"go.sia.tech/core/types"
)

// genuine leaves: one element of kind (i mod 5) at each position, all fields symbolic
type vhGenuine struct {
	kind  int
	spent bool
	sce   types.SiacoinElement
	sfe   types.SiafundElement
	fce   types.V2FileContractElement
	cie   types.ChainIndexElement
	v1fce types.FileContractElement
}

func vhShapeV1Contract(fc *types.FileContract) {
	fc.ValidProofOutputs = make([]types.SiacoinOutput, 2)
	fc.MissedProofOutputs = make([]types.SiacoinOutput, 2)
}

// v1 currencies inside the leaf pre-image: one byte-length class per element
func vhV1CurLen(fc *types.FileContract, name string) {
	l := []int{1, 9, 16}[vh.Choice(name, 3)]
	vh.ForEach(fc, func(c *types.Currency) {
		switch l {
		case 1:
			vh.Assume(vh.And(c.Hi == 0, c.Lo < 256, c.Lo > 0))
		case 9:
			vh.Assume(vh.And(c.Hi < 256, c.Hi > 0))
		case 16:
			vh.Assume(c.Hi >= 1<<56)
		}
	})
}

func (g *vhGenuine) leafHash(idx uint64) types.Hash256 {
	switch g.kind {
	case 0:
		g.sce.StateElement.LeafIndex = idx
		return siacoinLeaf(&g.sce, g.spent).hash()
	case 1:
		g.sfe.StateElement.LeafIndex = idx
		return siafundLeaf(&g.sfe, g.spent).hash()
	case 2:
		g.fce.StateElement.LeafIndex = idx
		return v2FileContractLeaf(&g.fce, nil, g.spent).hash()
	case 3:
		g.cie.StateElement.LeafIndex = idx
		return chainIndexLeaf(&g.cie).hash()
	default:
		g.v1fce.StateElement.LeafIndex = idx
		return fileContractLeaf(&g.v1fce, nil, g.spent).hash()
	}
}

func vhBuildGenuine(n int, v1 bool) ([]vhGenuine, ElementAccumulator) {
	gs := make([]vhGenuine, n)
	lh := make([]types.Hash256, n)
	kinds := 4
	if v1 {
		kinds = 5
	}
	for i := range gs {
		gs[i].kind = i % kinds
		name := "g" + string(rune('0'+i))
		gs[i].spent = vh.Bool(name + ".spent")
		switch gs[i].kind {
		case 0:
			vh.Fill(name, &gs[i].sce)
		case 1:
			vh.Fill(name, &gs[i].sfe)
		case 2:
			vh.Fill(name, &gs[i].fce)
		case 3:
			vh.Fill(name, &gs[i].cie)
			gs[i].spent = false
		case 4:
			vhShapeV1Contract(&gs[i].v1fce.FileContract)
			vh.Fill(name, &gs[i].v1fce)
			vhV1CurLen(&gs[i].v1fce.FileContract, name+".len")
		}
		lh[i] = gs[i].leafHash(uint64(i))
	}
	f := vhNaiveForest(lh)
	var acc ElementAccumulator
	acc.NumLeaves = uint64(n)
	acc.Trees = f.trees
	// heights without a tree hold arbitrary junk
	for h := 0; h < 8; h++ {
		if n&(1<<h) == 0 {
			vh.Fill("junk"+string(rune('0'+h)), &acc.Trees[h])
		}
	}
	return gs, acc
}

// membership soundness: accepted => some genuine leaf of the same kind has
// exactly this position, these field values and this spent status
func VH_C04_MembershipSound() {
	n := 1 + vh.Choice("n", vh.Param("maxn", 6))
	v1 := vh.Param("v1", 0) == 1
	gs, acc := vhBuildGenuine(n, v1)
	L := vh.Choice("prooflen", vh.Param("maxproof", 3)+1)
	proof := make([]types.Hash256, L)
	vh.Fill("proof", &proof)
	idx := vh.U64("idx")
	kinds := 4
	if v1 {
		kinds = 5
	}
	wantSpent := vh.Choice("spent", 2) == 1
	switch vh.Choice("kind", kinds) {
	case 0:
		var c types.SiacoinElement
		vh.Fill("c", &c)
		c.StateElement = types.StateElement{LeafIndex: idx, MerkleProof: proof}
		var ok bool
		if wantSpent {
			ok = acc.containsSpentSiacoinElement(c)
		} else {
			ok = acc.containsUnspentSiacoinElement(c)
		}
		match := false
		for i := range gs {
			if gs[i].kind == 0 {
				g := gs[i].sce
				match = vh.Or(match, vh.And(idx == uint64(i), gs[i].spent == wantSpent, c.ID == g.ID, vh.Eq(c.SiacoinOutput, g.SiacoinOutput), c.MaturityHeight == g.MaturityHeight))
			}
		}
		vh.Assert(vh.Implies(ok, match), "siacoin element accepted but no genuine leaf matches")
		if ok {
			vh.Reach("accepted-siacoin")
		}
	case 1:
		var c types.SiafundElement
		vh.Fill("c", &c)
		c.StateElement = types.StateElement{LeafIndex: idx, MerkleProof: proof}
		var ok bool
		if wantSpent {
			ok = acc.containsSpentSiafundElement(c)
		} else {
			ok = acc.containsUnspentSiafundElement(c)
		}
		match := false
		for i := range gs {
			if gs[i].kind == 1 {
				g := gs[i].sfe
				match = vh.Or(match, vh.And(idx == uint64(i), gs[i].spent == wantSpent, c.ID == g.ID, vh.Eq(c.SiafundOutput, g.SiafundOutput), c.ClaimStart == g.ClaimStart))
			}
		}
		vh.Assert(vh.Implies(ok, match), "siafund element accepted but no genuine leaf matches")
		if ok {
			vh.Reach("accepted-siafund")
		}
	case 2:
		var c types.V2FileContractElement
		vh.Fill("c", &c)
		c.StateElement = types.StateElement{LeafIndex: idx, MerkleProof: proof}
		var ok bool
		if wantSpent {
			ok = acc.containsResolvedV2FileContractElement(c)
		} else {
			ok = acc.containsUnresolvedV2FileContractElement(c)
		}
		match := false
		for i := range gs {
			if gs[i].kind == 2 {
				g := gs[i].fce
				match = vh.Or(match, vh.And(idx == uint64(i), gs[i].spent == wantSpent, c.ID == g.ID, vh.Eq(c.V2FileContract, g.V2FileContract)))
			}
		}
		vh.Assert(vh.Implies(ok, match), "v2 contract element accepted but no genuine leaf matches")
		if ok {
			vh.Reach("accepted-v2contract")
		}
	case 3:
		if wantSpent {
			return
		}
		var c types.ChainIndexElement
		vh.Fill("c", &c)
		c.StateElement = types.StateElement{LeafIndex: idx, MerkleProof: proof}
		ok := acc.containsChainIndex(c)
		match := false
		for i := range gs {
			if gs[i].kind == 3 {
				g := gs[i].cie
				match = vh.Or(match, vh.And(idx == uint64(i), c.ID == g.ID, c.ChainIndex == g.ChainIndex))
			}
		}
		vh.Assert(vh.Implies(ok, match), "chain index accepted but no genuine leaf matches")
		if ok {
			vh.Reach("accepted-chainindex")
		}
	case 4:
		if wantSpent {
			return
		}
		var c types.FileContractElement
		vhShapeV1Contract(&c.FileContract)
		vh.Fill("c", &c)
		vhV1CurLen(&c.FileContract, "c.len")
		c.StateElement = types.StateElement{LeafIndex: idx, MerkleProof: proof}
		ok := acc.containsUnresolvedFileContractElement(c)
		match := false
		for i := range gs {
			if gs[i].kind == 4 {
				g := gs[i].v1fce
				match = vh.Or(match, vh.And(idx == uint64(i), !gs[i].spent, c.ID == g.ID, vh.Eq(c.FileContract, g.FileContract)))
			}
		}
		vh.Assert(vh.Implies(ok, match), "v1 contract element accepted but no genuine leaf matches")
		if ok {
			vh.Reach("accepted-v1contract")
		}
	}
}

// completeness: each genuine element with its naive path is accepted with its
// true status and rejected with the opposite one
func VH_C04_MembershipComplete() {
	n := 1 + vh.Choice("n", vh.Param("maxn", 6))
	gs := make([]vhGenuine, n)
	lh := make([]types.Hash256, n)
	for i := range gs {
		gs[i].kind = i % 4
		name := "g" + string(rune('0'+i))
		gs[i].spent = vh.Choice(name+".spent", 2) == 1
		switch gs[i].kind {
		case 0:
			vh.Fill(name, &gs[i].sce)
		case 1:
			vh.Fill(name, &gs[i].sfe)
		case 2:
			vh.Fill(name, &gs[i].fce)
		case 3:
			vh.Fill(name, &gs[i].cie)
			gs[i].spent = false
		}
		lh[i] = gs[i].leafHash(uint64(i))
	}
	f := vhNaiveForest(lh)
	acc := ElementAccumulator{NumLeaves: uint64(n), Trees: f.trees}
	for i := range gs {
		se := types.StateElement{LeafIndex: uint64(i), MerkleProof: f.proofs[i]}
		switch gs[i].kind {
		case 0:
			e := gs[i].sce
			e.StateElement = se
			vh.Assert(acc.containsUnspentSiacoinElement(e) == !gs[i].spent, "genuine siacoin element: unspent status wrong")
			vh.Assert(acc.containsSpentSiacoinElement(e) == gs[i].spent, "genuine siacoin element: spent status wrong")
		case 1:
			e := gs[i].sfe
			e.StateElement = se
			vh.Assert(acc.containsUnspentSiafundElement(e) == !gs[i].spent, "genuine siafund element: unspent status wrong")
			vh.Assert(acc.containsSpentSiafundElement(e) == gs[i].spent, "genuine siafund element: spent status wrong")
		case 2:
			e := gs[i].fce
			e.StateElement = se
			vh.Assert(acc.containsUnresolvedV2FileContractElement(e) == !gs[i].spent, "genuine contract: unresolved status wrong")
			vh.Assert(acc.containsResolvedV2FileContractElement(e) == gs[i].spent, "genuine contract: resolved status wrong")
		case 3:
			e := gs[i].cie
			e.StateElement = se
			vh.Assert(acc.containsChainIndex(e), "genuine chain index rejected")
		}
	}
	vh.Reach("end")
}

// the same soundness through ValidateTransactionElements (v2 parents carried in transactions)
func VH_C04_TransactionElements() {
	n := 1 + vh.Choice("n", vh.Param("maxn", 6))
	gs, acc := vhBuildGenuine(n, false)
	L := vh.Choice("prooflen", vh.Param("maxproof", 3)+1)
	var txn types.V2Transaction
	which := vh.Choice("which", 5)
	proof := make([]types.Hash256, L)
	vh.Fill("proof", &proof)
	idx := vh.U64("idx")
	vh.Assume(idx != types.UnassignedLeafIndex)
	se := types.StateElement{LeafIndex: idx, MerkleProof: proof}
	match := false
	switch which {
	case 0:
		txn.SiacoinInputs = make([]types.V2SiacoinInput, 1)
		vh.Fill("in", &txn.SiacoinInputs[0].Parent)
		txn.SiacoinInputs[0].Parent.StateElement = se
		c := txn.SiacoinInputs[0].Parent
		for i := range gs {
			if gs[i].kind == 0 {
				g := gs[i].sce
				match = vh.Or(match, vh.And(idx == uint64(i), !gs[i].spent, c.ID == g.ID, vh.Eq(c.SiacoinOutput, g.SiacoinOutput), c.MaturityHeight == g.MaturityHeight))
			}
		}
	case 1:
		txn.SiafundInputs = make([]types.V2SiafundInput, 1)
		vh.Fill("in", &txn.SiafundInputs[0].Parent)
		txn.SiafundInputs[0].Parent.StateElement = se
		c := txn.SiafundInputs[0].Parent
		for i := range gs {
			if gs[i].kind == 1 {
				g := gs[i].sfe
				match = vh.Or(match, vh.And(idx == uint64(i), !gs[i].spent, c.ID == g.ID, vh.Eq(c.SiafundOutput, g.SiafundOutput), c.ClaimStart == g.ClaimStart))
			}
		}
	case 2:
		txn.FileContractRevisions = make([]types.V2FileContractRevision, 1)
		vh.Fill("in", &txn.FileContractRevisions[0])
		txn.FileContractRevisions[0].Parent.StateElement = se
		c := txn.FileContractRevisions[0].Parent
		for i := range gs {
			if gs[i].kind == 2 {
				g := gs[i].fce
				match = vh.Or(match, vh.And(idx == uint64(i), !gs[i].spent, c.ID == g.ID, vh.Eq(c.V2FileContract, g.V2FileContract)))
			}
		}
	case 3:
		txn.FileContractResolutions = make([]types.V2FileContractResolution, 1)
		vh.Fill("in", &txn.FileContractResolutions[0].Parent)
		txn.FileContractResolutions[0].Parent.StateElement = se
		txn.FileContractResolutions[0].Resolution = &types.V2FileContractExpiration{}
		c := txn.FileContractResolutions[0].Parent
		for i := range gs {
			if gs[i].kind == 2 {
				g := gs[i].fce
				match = vh.Or(match, vh.And(idx == uint64(i), !gs[i].spent, c.ID == g.ID, vh.Eq(c.V2FileContract, g.V2FileContract)))
			}
		}
	case 4:
		// storage proof: the proof index must be a genuine chain index leaf; the
		// contract parent is taken from a genuine leaf so only the index is in question
		if n < 4 {
			return
		}
		txn.FileContractResolutions = make([]types.V2FileContractResolution, 1)
		parent := gs[2].fce
		f := vhNaiveForestOf(gs)
		parent.StateElement = types.StateElement{LeafIndex: 2, MerkleProof: f.proofs[2]}
		vh.Assume(!gs[2].spent)
		txn.FileContractResolutions[0].Parent = parent
		sp := &types.V2StorageProof{}
		vh.Fill("sp", sp)
		sp.ProofIndex.StateElement = se
		txn.FileContractResolutions[0].Resolution = sp
		c := sp.ProofIndex
		for i := range gs {
			if gs[i].kind == 3 {
				g := gs[i].cie
				match = vh.Or(match, vh.And(idx == uint64(i), c.ID == g.ID, c.ChainIndex == g.ChainIndex))
			}
		}
	}
	err := acc.ValidateTransactionElements(txn)
	vh.Assert(vh.Implies(err == nil, match), "ValidateTransactionElements accepted a parent that is not a genuine unspent leaf")
	if err == nil {
		vh.Reach("accepted")
	}
}

func vhNaiveForestOf(gs []vhGenuine) vhForest {
	lh := make([]types.Hash256, len(gs))
	for i := range gs {
		lh[i] = gs[i].leafHash(uint64(i))
	}
	return vhNaiveForest(lh)
}
