package consensus

import (
	"go.sia.tech/core/blake2b"
	"go.sia.tech/core/internal/vh"
	"go.sia.tech/core/types"
)

// ---- naive reference forest (written independently of merkle.go) ----

func vhNaiveRoot(hs []types.Hash256) types.Hash256 {
	if len(hs) == 1 {
		return hs[0]
	}
	m := len(hs) / 2
	return blake2b.SumPair(vhNaiveRoot(hs[:m]), vhNaiveRoot(hs[m:]))
}

// vhNaivePath returns the sibling path of leaf idx in a perfect tree over hs.
func vhNaivePath(hs []types.Hash256, idx int) []types.Hash256 {
	if len(hs) == 1 {
		return nil
	}
	m := len(hs) / 2
	if idx < m {
		return append(vhNaivePath(hs[:m], idx), vhNaiveRoot(hs[m:]))
	}
	return append(vhNaivePath(hs[m:], idx-m), vhNaiveRoot(hs[:m]))
}

type vhForest struct {
	trees  [64]types.Hash256
	proofs [][]types.Hash256
}

// vhNaiveForest: trees of sizes given by the bits of len(hs), largest first.
func vhNaiveForest(hs []types.Hash256) (f vhForest) {
	n := len(hs)
	f.proofs = make([][]types.Hash256, n)
	start := 0
	for h := 62; h >= 0; h-- {
		if n&(1<<h) == 0 {
			continue
		}
		sub := hs[start : start+1<<h]
		f.trees[h] = vhNaiveRoot(sub)
		for i := range sub {
			f.proofs[start+i] = vhNaivePath(sub, i)
		}
		start += 1 << h
	}
	return
}

func vhLeafHash(eh types.Hash256, idx uint64, spent bool) types.Hash256 {
	se := types.StateElement{LeafIndex: idx}
	return elementLeaf{&se, eh, spent}.hash()
}

func vhProofEq(a, b []types.Hash256) bool {
	if len(a) != len(b) {
		return false
	}
	r := true
	for i := range a {
		r = vh.And(r, a[i] == b[i])
	}
	return r
}

func vhTreesEq(acc *ElementAccumulator, f *vhForest, n int) bool {
	r := acc.NumLeaves == uint64(n)
	for h := 0; h < 64; h++ {
		if n&(1<<h) != 0 {
			r = vh.And(r, acc.Trees[h] == f.trees[h])
		}
	}
	return r
}

func vhCloneSE(se types.StateElement) types.StateElement {
	return types.StateElement{LeafIndex: se.LeafIndex, MerkleProof: append([]types.Hash256(nil), se.MerkleProof...)}
}

// Apply: roots/leaf count equal the naive forest, every tracked proof (old,
// updated, added) equals the naive path; Revert: proofs return to the paths of
// the parent forest; re-apply after revert gives identical proofs.
func VH_C05_ApplyRevert() {
	maxN := vh.Param("maxn", 6)
	maxK := vh.Param("maxk", 2)
	maxU := vh.Param("maxu", 3)
	n := vh.Choice("n", maxN+1)
	k := vh.Choice("k", maxK+1)

	// element hashes before and after the block, for old leaves
	eh := make([]types.Hash256, n)
	eh2 := make([]types.Hash256, n)
	vh.Fill("eh", &eh)
	vh.Fill("eh2", &eh2)
	ehNew := make([]types.Hash256, k)
	vh.Fill("ehNew", &ehNew)

	// 1. build the parent accumulator by adding n leaves in one block
	var acc ElementAccumulator
	elems := make([]types.StateElement, n)
	leaves := make([]elementLeaf, n)
	for i := range leaves {
		elems[i].LeafIndex = types.UnassignedLeafIndex
		leaves[i] = elementLeaf{&elems[i], eh[i], false}
	}
	acc.applyBlock(nil, leaves)
	lh := make([]types.Hash256, n)
	for i := range lh {
		lh[i] = vhLeafHash(eh[i], uint64(i), false)
	}
	f0 := vhNaiveForest(lh)
	vh.Assert(vhTreesEq(&acc, &f0, n), "accumulator after adding n leaves differs from the naive forest")
	for i := range elems {
		vh.Assert(elems[i].LeafIndex == uint64(i), "added leaf got wrong index")
		vh.Assert(vhProofEq(elems[i].MerkleProof, f0.proofs[i]), "proof of added leaf differs from the naive path")
		vh.Assert(acc.containsLeaf(elementLeaf{&elems[i], eh[i], false}), "added leaf does not verify")
	}

	// 2. for every subset U of old leaves updated in a block that also adds k leaves
	for mask := 0; mask < 1<<n; mask++ {
		cnt := 0
		for i := 0; i < n; i++ {
			if mask&(1<<i) != 0 {
				cnt++
			}
		}
		if cnt > maxU {
			continue
		}
		acc2 := acc
		// the block carries its own copies of the updated elements (with proofs
		// valid in the parent state); clients track every old leaf separately
		var updated []elementLeaf
		ucopies := make([]types.StateElement, n)
		for i := n - 1; i >= 0; i-- { // deliberately not in index order
			if mask&(1<<i) != 0 {
				ucopies[i] = vhCloneSE(elems[i])
				updated = append(updated, elementLeaf{&ucopies[i], eh2[i], true})
			}
		}
		added := make([]elementLeaf, k)
		addedSE := make([]types.StateElement, k)
		for j := range added {
			addedSE[j].LeafIndex = types.UnassignedLeafIndex
			added[j] = elementLeaf{&addedSE[j], ehNew[j], false}
		}
		eau := acc2.applyBlock(updated, added)

		// expected forest after the block
		lh2 := make([]types.Hash256, n+k)
		for i := 0; i < n; i++ {
			if mask&(1<<i) != 0 {
				lh2[i] = vhLeafHash(eh2[i], uint64(i), true)
			} else {
				lh2[i] = lh[i]
			}
		}
		for j := 0; j < k; j++ {
			lh2[n+j] = vhLeafHash(ehNew[j], uint64(n+j), false)
		}
		f1 := vhNaiveForest(lh2)
		vh.Assert(vhTreesEq(&acc2, &f1, n+k), "accumulator after apply differs from the naive forest")

		clients := make([]types.StateElement, n)
		for i := range clients {
			clients[i] = vhCloneSE(elems[i])
			eau.updateElementProof(&clients[i])
			vh.Assert(vhProofEq(clients[i].MerkleProof, f1.proofs[i]), "client proof after apply differs from the naive path")
		}
		for i := 0; i < n; i++ {
			if mask&(1<<i) != 0 {
				vh.Assert(vhProofEq(ucopies[i].MerkleProof, f1.proofs[i]), "updated element's proof after apply differs from the naive path")
			}
		}
		for j := 0; j < k; j++ {
			vh.Assert(addedSE[j].LeafIndex == uint64(n+j), "added leaf index")
			vh.Assert(vhProofEq(addedSE[j].MerkleProof, f1.proofs[n+j]), "added element's proof differs from the naive path")
		}

		// 3. revert: the parent accumulator, the block's elements again with
		// their parent-state proofs and pre-block content
		var rupdated []elementLeaf
		rcopies := make([]types.StateElement, n)
		for i := n - 1; i >= 0; i-- {
			if mask&(1<<i) != 0 {
				rcopies[i] = vhCloneSE(elems[i])
				rupdated = append(rupdated, elementLeaf{&rcopies[i], eh[i], false})
			}
		}
		radded := make([]elementLeaf, k)
		raddedSE := make([]types.StateElement, k)
		for j := range radded {
			raddedSE[j].LeafIndex = types.UnassignedLeafIndex
			radded[j] = elementLeaf{&raddedSE[j], ehNew[j], false}
		}
		accParent := acc
		eru := accParent.revertBlock(rupdated, radded)
		vh.Assert(vhTreesEq(&accParent, &f0, n), "revertBlock modified the accumulator")
		for i := range clients {
			eru.updateElementProof(&clients[i])
			vh.Assert(vhProofEq(clients[i].MerkleProof, f0.proofs[i]), "client proof after revert differs from the parent forest path")
		}
		// 4. re-apply: same proofs as the first time
		var updated3 []elementLeaf
		ucopies3 := make([]types.StateElement, n)
		for i := n - 1; i >= 0; i-- {
			if mask&(1<<i) != 0 {
				ucopies3[i] = vhCloneSE(clients[i])
				updated3 = append(updated3, elementLeaf{&ucopies3[i], eh2[i], true})
			}
		}
		added3 := make([]elementLeaf, k)
		addedSE3 := make([]types.StateElement, k)
		for j := range added3 {
			addedSE3[j].LeafIndex = types.UnassignedLeafIndex
			added3[j] = elementLeaf{&addedSE3[j], ehNew[j], false}
		}
		acc3 := accParent
		eau3 := acc3.applyBlock(updated3, added3)
		vh.Assert(vhTreesEq(&acc3, &f1, n+k), "accumulator after re-apply differs")
		for i := range clients {
			eau3.updateElementProof(&clients[i])
			vh.Assert(vhProofEq(clients[i].MerkleProof, f1.proofs[i]), "client proof after re-apply differs from the naive path")
		}
	}
	vh.Reach("end")
}
