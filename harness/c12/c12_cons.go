package consensus

import (
	"go.sia.tech/core/internal/vh"
	"go.sia.tech/core/types"
)

func vhContractEq(a, b types.V2FileContract) bool {
	a.RenterSignature, a.HostSignature = types.Signature{}, types.Signature{}
	b.RenterSignature, b.HostSignature = types.Signature{}, types.Signature{}
	return vh.Eq(a, b)
}

// v2 signature hashes: purpose distinguishers keep them apart, each is
// injective in the content it covers.
func VH_C12_V2SigHashes() {
	n := vhNetwork("net")
	s := vhState("s", n)
	var fc1, fc2 types.V2FileContract
	vh.Fill("fc1", &fc1)
	vh.Fill("fc2", &fc2)
	var r1, r2 types.V2FileContractRenewal
	vh.Fill("r1", &r1)
	vh.Fill("r2", &r2)
	var a1, a2 types.Attestation
	a1.Key, a2.Key = "k", "k"
	a1.Value, a2.Value = make([]byte, 1), make([]byte, 1)
	vh.Fill("a1", &a1)
	vh.Fill("a2", &a2)
	var t1, t2 types.V2Transaction
	t1.SiacoinOutputs = make([]types.SiacoinOutput, 1)
	t2.SiacoinOutputs = make([]types.SiacoinOutput, 1)
	vh.Fill("t1", &t1)
	vh.Fill("t2", &t2)

	hs := []types.Hash256{s.InputSigHash(t1), s.ContractSigHash(fc1), s.RenewalSigHash(r1), s.AttestationSigHash(a1), types.Hash256(t1.ID()), t1.FullHash()}
	for i := range hs {
		for j := i + 1; j < len(hs); j++ {
			vh.Assert(hs[i] != hs[j], "v2 hashes of different purposes coincide")
		}
	}
	vh.Assert(vh.Implies(s.ContractSigHash(fc1) == s.ContractSigHash(fc2), vhContractEq(fc1, fc2)), "contract sighash does not bind contract content")
	fc3 := fc1
	vh.Fill("fc3sigs", &fc3.RenterSignature)
	vh.Fill("fc3sigs2", &fc3.HostSignature)
	vh.Assert(s.ContractSigHash(fc1) == s.ContractSigHash(fc3), "contract sighash depends on the signatures it is meant to produce")
	sameRenewal := vh.And(vh.Eq(r1.FinalRenterOutput, r2.FinalRenterOutput), vh.Eq(r1.FinalHostOutput, r2.FinalHostOutput),
		r1.RenterRollover == r2.RenterRollover, r1.HostRollover == r2.HostRollover, vhContractEq(r1.NewContract, r2.NewContract))
	vh.Assert(vh.Implies(s.RenewalSigHash(r1) == s.RenewalSigHash(r2), sameRenewal), "renewal sighash does not bind renewal content")
	vh.Assert(vh.Implies(sameRenewal, s.RenewalSigHash(r1) == s.RenewalSigHash(r2)), "renewal sighash depends on signatures")
	sameAtt := vh.And(a1.PublicKey == a2.PublicKey, vh.Eq(a1.Key, a2.Key), vh.Eq(a1.Value, a2.Value))
	vh.Assert(vh.Implies(s.AttestationSigHash(a1) == s.AttestationSigHash(a2), sameAtt), "attestation sighash does not bind attestation content")
	vh.Assert(vh.Implies(s.InputSigHash(t1) == s.InputSigHash(t2), t1.ID() == t2.ID()), "input sighash does not bind the transaction semantics")
	vh.Reach("end")
}

// v1 whole-transaction signature hash: binds the era's replay prefix when an
// input is present, and the (parent, key index, timelock) triple.
func VH_C12_V1WholeSigHash() {
	n := vhNetwork("net")
	s1 := vhState("s1", n)
	s2 := vhState("s2", n)
	var t types.Transaction
	t.SiacoinInputs = make([]types.SiacoinInput, 1)
	t.SiacoinOutputs = make([]types.SiacoinOutput, 1)
	vh.Fill("t", &t)
	// one common byte-length class for the v1 currency
	vh.Assume(vh.And(t.SiacoinOutputs[0].Value.Hi == 0, t.SiacoinOutputs[0].Value.Lo < 256, t.SiacoinOutputs[0].Value.Lo > 0))
	var p1, p2 types.Hash256
	vh.Fill("p1", &p1)
	vh.Fill("p2", &p2)
	k1, k2, l1, l2 := vh.U64("k1"), vh.U64("k2"), vh.U64("l1"), vh.U64("l2")
	h1 := s1.WholeSigHash(t, p1, k1, l1, nil)
	h2 := s2.WholeSigHash(t, p2, k2, l2, nil)
	era := func(s State) int {
		switch {
		case s.Index.Height >= s.Network.HardforkV2.AllowHeight:
			return 3
		case s.Index.Height >= s.Network.HardforkFoundation.Height:
			return 2
		case s.Index.Height >= s.Network.HardforkASIC.Height:
			return 1
		}
		return 0
	}
	e1, e2 := era(s1), era(s2)
	if e1 != e2 {
		vh.Assert(h1 != h2, "v1 signature hash identical across replay-protection eras")
		vh.Reach("cross-era")
		return
	}
	vh.Assert(vh.Implies(h1 == h2, vh.And(p1 == p2, k1 == k2, l1 == l2)), "v1 signature hash does not bind parent ID / key index / timelock")
	// v1 and v2 signature hashes never coincide
	var t2 types.V2Transaction
	t2.SiacoinOutputs = make([]types.SiacoinOutput, 1)
	vh.Fill("t2", &t2)
	vh.Assert(h1 != s1.InputSigHash(t2), "v1 and v2 signature hashes coincide")
	vh.Reach("same-era")
}

// v2 commitment binds parent state, miner address and every transaction's
// full encoding
func VH_C12_V2Commitment() {
	n := vhNetwork("net")
	s1 := vhState("s1", n)
	s2 := vhState("s2", n)
	// keep the accumulator/timestamp prefix lengths concrete and equal
	h := uint64(vh.Param("height", 20))
	s1.Index.Height, s2.Index.Height = h, h
	nl := uint64(vh.Param("numleaves", 5))
	s1.Elements.NumLeaves, s2.Elements.NumLeaves = nl, nl
	var m1, m2 types.Address
	vh.Fill("m1", &m1)
	vh.Fill("m2", &m2)
	k := vh.Param("n", 1)
	v1 := make([]types.V2Transaction, k)
	v2 := make([]types.V2Transaction, k)
	for i := range v1 {
		v1[i].SiacoinOutputs = make([]types.SiacoinOutput, 1)
		v2[i].SiacoinOutputs = make([]types.SiacoinOutput, 1)
		v1[i].ArbitraryData = make([]byte, 2)
		v2[i].ArbitraryData = make([]byte, 2)
	}
	vh.Fill("v1", &v1)
	vh.Fill("v2", &v2)
	c1 := s1.Commitment(m1, nil, v1)
	c2 := s2.Commitment(m2, nil, v2)
	sameState := vh.And(s1.Index == s2.Index, vh.Eq(s1.PrevTimestamps, s2.PrevTimestamps), s1.Depth == s2.Depth, s1.ChildTarget == s2.ChildTarget,
		s1.SiafundTaxRevenue == s2.SiafundTaxRevenue, s1.OakTime == s2.OakTime, s1.OakTarget == s2.OakTarget,
		s1.FoundationSubsidyAddress == s2.FoundationSubsidyAddress, s1.FoundationManagementAddress == s2.FoundationManagementAddress,
		s1.TotalWork == s2.TotalWork, s1.Difficulty == s2.Difficulty, s1.OakWork == s2.OakWork, s1.Attestations == s2.Attestations)
	for i := 0; i < 64; i++ {
		if nl&(1<<i) != 0 {
			sameState = vh.And(sameState, s1.Elements.Trees[i] == s2.Elements.Trees[i])
		}
	}
	vh.Assert(vh.Implies(c1 == c2, vh.And(sameState, m1 == m2, vh.Eq(v1, v2))), "v2 commitment does not bind parent state, miner address and transactions")
	vh.Reach("end")
}

// v1 partial signature hash: binds the era's replay prefix for siacoin AND
// siafund inputs, and (same covered fields, same shape) the covered content
func VH_C12_V1PartialSigHash() {
	n := vhNetwork("net")
	s1 := vhState("s1", n)
	s2 := vhState("s2", n)
	var t1, t2 types.Transaction
	which := vh.Choice("covered", 2)
	for _, t := range []*types.Transaction{&t1, &t2} {
		t.SiacoinInputs = make([]types.SiacoinInput, 1)
		t.SiafundInputs = make([]types.SiafundInput, 1)
		t.SiacoinOutputs = make([]types.SiacoinOutput, 1)
	}
	vh.Fill("t1", &t1)
	vh.Fill("t2", &t2)
	for _, t := range []*types.Transaction{&t1, &t2} {
		vh.Assume(vh.And(t.SiacoinOutputs[0].Value.Hi == 0, t.SiacoinOutputs[0].Value.Lo < 256, t.SiacoinOutputs[0].Value.Lo > 0))
	}
	var cf types.CoveredFields
	if which == 0 {
		cf.SiacoinInputs = []uint64{0}
		cf.SiacoinOutputs = []uint64{0}
	} else {
		cf.SiafundInputs = []uint64{0}
		cf.SiacoinOutputs = []uint64{0}
	}
	era := func(s State) int {
		switch {
		case s.Index.Height >= s.Network.HardforkV2.AllowHeight:
			return 3
		case s.Index.Height >= s.Network.HardforkFoundation.Height:
			return 2
		case s.Index.Height >= s.Network.HardforkASIC.Height:
			return 1
		}
		return 0
	}
	e1, e2 := era(s1), era(s2)
	h1 := s1.PartialSigHash(t1, cf)
	if e1 != e2 {
		vh.Assert(h1 != s2.PartialSigHash(t1, cf), "v1 partial signature hash identical across replay-protection eras")
		vh.Reach("cross-era")
		return
	}
	h2 := s2.PartialSigHash(t2, cf)
	same := vh.Eq(t1.SiacoinOutputs[0], t2.SiacoinOutputs[0])
	if which == 0 {
		same = vh.And(same, vh.Eq(t1.SiacoinInputs[0], t2.SiacoinInputs[0]))
	} else {
		same = vh.And(same, vh.Eq(t1.SiafundInputs[0], t2.SiafundInputs[0]))
	}
	vh.Assert(vh.Implies(h1 == h2, same), "v1 partial signature hash does not bind the covered fields")
	vh.Reach("same-era")
}
