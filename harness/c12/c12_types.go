package types

import "go.sia.tech/core/internal/vh"

// ---- effect-bearing projections (independent statement of what an ID must bind) ----

// v1: everything except the signatures.
func vhSemEqV1(a, b *Transaction) bool {
	return vh.And(
		vh.Eq(a.SiacoinInputs, b.SiacoinInputs),
		vh.Eq(a.SiacoinOutputs, b.SiacoinOutputs),
		vh.Eq(a.FileContracts, b.FileContracts),
		vhRevsEq(a.FileContractRevisions, b.FileContractRevisions),
		vh.Eq(a.StorageProofs, b.StorageProofs),
		vh.Eq(a.SiafundInputs, b.SiafundInputs),
		vh.Eq(a.SiafundOutputs, b.SiafundOutputs),
		vh.Eq(a.MinerFees, b.MinerFees),
		vh.Eq(a.ArbitraryData, b.ArbitraryData),
	)
}

// a v1 revision carries no payout (sentinel field), everything else counts
func vhRevsEq(a, b []FileContractRevision) bool {
	if len(a) != len(b) {
		return false
	}
	r := true
	for i := range a {
		x, y := a[i], b[i]
		x.FileContract.Payout, y.FileContract.Payout = ZeroCurrency, ZeroCurrency
		r = vh.And(r, vh.Eq(x, y))
	}
	return r
}

func vhContractEq(a, b V2FileContract) bool {
	a.RenterSignature, a.HostSignature = Signature{}, Signature{}
	b.RenterSignature, b.HostSignature = Signature{}, Signature{}
	return vh.Eq(a, b)
}

// v2: parents by ID only; no witnesses; no contract/renewal signatures; no
// Merkle proofs. Everything else (including siafund claim addresses,
// attestation signatures, storage-proof leaves) is an effect of the transaction.
func vhSemEqV2(a, b *V2Transaction, withClaim bool) bool {
	if len(a.SiacoinInputs) != len(b.SiacoinInputs) || len(a.SiafundInputs) != len(b.SiafundInputs) ||
		len(a.FileContracts) != len(b.FileContracts) || len(a.FileContractRevisions) != len(b.FileContractRevisions) ||
		len(a.FileContractResolutions) != len(b.FileContractResolutions) {
		return false
	}
	r := vh.And(
		vh.Eq(a.SiacoinOutputs, b.SiacoinOutputs),
		vh.Eq(a.SiafundOutputs, b.SiafundOutputs),
		vh.Eq(a.Attestations, b.Attestations),
		vh.Eq(a.ArbitraryData, b.ArbitraryData),
		vh.Eq(a.NewFoundationAddress, b.NewFoundationAddress),
		vh.Eq(a.MinerFee, b.MinerFee),
	)
	for i := range a.SiacoinInputs {
		r = vh.And(r, a.SiacoinInputs[i].Parent.ID == b.SiacoinInputs[i].Parent.ID)
	}
	for i := range a.SiafundInputs {
		r = vh.And(r, a.SiafundInputs[i].Parent.ID == b.SiafundInputs[i].Parent.ID)
		if withClaim {
			r = vh.And(r, a.SiafundInputs[i].ClaimAddress == b.SiafundInputs[i].ClaimAddress)
		}
	}
	for i := range a.FileContracts {
		r = vh.And(r, vhContractEq(a.FileContracts[i], b.FileContracts[i]))
	}
	for i := range a.FileContractRevisions {
		r = vh.And(r, a.FileContractRevisions[i].Parent.ID == b.FileContractRevisions[i].Parent.ID,
			vhContractEq(a.FileContractRevisions[i].Revision, b.FileContractRevisions[i].Revision))
	}
	for i := range a.FileContractResolutions {
		x, y := a.FileContractResolutions[i], b.FileContractResolutions[i]
		r = vh.And(r, x.Parent.ID == y.Parent.ID)
		switch xr := x.Resolution.(type) {
		case *V2FileContractRenewal:
			yr, ok := y.Resolution.(*V2FileContractRenewal)
			if !ok {
				return false
			}
			r = vh.And(r, vh.Eq(xr.FinalRenterOutput, yr.FinalRenterOutput), vh.Eq(xr.FinalHostOutput, yr.FinalHostOutput),
				xr.RenterRollover == yr.RenterRollover, xr.HostRollover == yr.HostRollover,
				vhContractEq(xr.NewContract, yr.NewContract))
		case *V2StorageProof:
			yr, ok := y.Resolution.(*V2StorageProof)
			if !ok {
				return false
			}
			r = vh.And(r, xr.ProofIndex.ID == yr.ProofIndex.ID, xr.ProofIndex.ChainIndex == yr.ProofIndex.ChainIndex,
				xr.ProofIndex.StateElement.LeafIndex == yr.ProofIndex.StateElement.LeafIndex,
				xr.Leaf == yr.Leaf, vh.Eq(xr.Proof, yr.Proof))
		case *V2FileContractExpiration:
			if _, ok := y.Resolution.(*V2FileContractExpiration); !ok {
				return false
			}
		}
	}
	return r
}

func vhShapeV1(t *Transaction, mask, n int) {
	mk := func(bit int) int {
		if mask&(1<<bit) != 0 {
			return n
		}
		return 0
	}
	t.SiacoinInputs = make([]SiacoinInput, mk(0))
	t.SiacoinOutputs = make([]SiacoinOutput, mk(1))
	t.FileContracts = make([]FileContract, mk(2))
	t.FileContractRevisions = make([]FileContractRevision, mk(3))
	t.StorageProofs = make([]StorageProof, mk(4))
	t.SiafundInputs = make([]SiafundInput, mk(5))
	t.SiafundOutputs = make([]SiafundOutput, mk(6))
	t.MinerFees = make([]Currency, mk(7))
	t.ArbitraryData = make([][]byte, mk(8))
	t.Signatures = make([]TransactionSignature, mk(9))
	for i := range t.SiacoinInputs {
		vh.Shape(&t.SiacoinInputs[i], n)
	}
	for i := range t.FileContracts {
		vh.Shape(&t.FileContracts[i], n)
	}
	for i := range t.FileContractRevisions {
		vh.Shape(&t.FileContractRevisions[i], n)
	}
	for i := range t.StorageProofs {
		vh.Shape(&t.StorageProofs[i], n)
	}
	for i := range t.SiafundInputs {
		vh.Shape(&t.SiafundInputs[i], n)
	}
	for i := range t.ArbitraryData {
		t.ArbitraryData[i] = make([]byte, n)
	}
	for i := range t.Signatures {
		vh.Shape(&t.Signatures[i], n)
	}
}

func vhFixV1Len(t *Transaction, name string) {
	lens := []int{0, 1, 8, 9, 16}
	l := lens[vh.Choice(name, len(lens))]
	vh.ForEach(t, func(c *Currency) { vhCurLen(c, l) })
	vh.ForEach(t, func(o *SiafundOutput) { vhU64Len(&o.Value, l) })
}

// v1: ID(t1) == ID(t2) <=> effect-bearing content equal (same shape)
func VH_C12_V1_ID_SameShape() {
	n := vh.Param("n", 1)
	mask := vh.Param("mask", 0)
	if mask == 0 {
		// one or two components populated
		i := vh.Choice("component.i", 10)
		j := i
		if vh.Param("pairs", 0) == 1 {
			j = i + vh.Choice("component.j", 10-i)
		} else if vh.Choice("adjacent", 2) == 1 {
			if i == 9 {
				return
			}
			j = i + 1
		}
		mask = 1<<i | 1<<j
	}
	var a, b Transaction
	vhShapeV1(&a, mask, n)
	vhShapeV1(&b, mask, n)
	vh.Fill("a", &a)
	vh.Fill("b", &b)
	vhFixV1Len(&a, "a.len")
	vhFixV1Len(&b, "b.len")
	same := vhSemEqV1(&a, &b)
	vh.Assert(vh.Implies(a.ID() == b.ID(), same), "v1 ID equal but effect-bearing content differs")
	vh.Assert(vh.Implies(same, a.ID() == b.ID()), "v1 ID changed by incidental data (signatures)")
	vh.Assert(vh.Implies(a.FullHash() == b.FullHash(), vh.And(same, vh.Eq(a.Signatures, b.Signatures))), "v1 FullHash not injective")
	vh.Reach("end")
}

// v1: adjacent shapes (one component has one more element) never share an ID
func VH_C12_V1_ID_AdjacentShape() {
	n := vh.Param("n", 1)
	var a, b Transaction
	bit := vh.Choice("component", 9)
	base := vh.Param("mask", 0x1ff)
	vhShapeV1(&a, base&^(1<<bit), n)
	vhShapeV1(&b, base, n)
	vh.Fill("a", &a)
	vh.Fill("b", &b)
	vhFixV1Len(&a, "a.len")
	vhFixV1Len(&b, "b.len")
	vh.Assert(a.ID() != b.ID(), "v1 ID collision between shapes differing in one component count")
	vh.Reach("end")
}

func vhShapeV2(t *V2Transaction, mask, n int, resKind int) {
	mk := func(bit int) int {
		if mask&(1<<bit) != 0 {
			return n
		}
		return 0
	}
	t.SiacoinInputs = make([]V2SiacoinInput, mk(0))
	t.SiacoinOutputs = make([]SiacoinOutput, mk(1))
	t.SiafundInputs = make([]V2SiafundInput, mk(2))
	t.SiafundOutputs = make([]SiafundOutput, mk(3))
	t.FileContracts = make([]V2FileContract, mk(4))
	t.FileContractRevisions = make([]V2FileContractRevision, mk(5))
	t.FileContractResolutions = make([]V2FileContractResolution, mk(6))
	t.Attestations = make([]Attestation, mk(7))
	t.ArbitraryData = make([]byte, mk(8))
	if mask&(1<<9) != 0 {
		t.NewFoundationAddress = new(Address)
	}
	for i := range t.SiacoinInputs {
		in := &t.SiacoinInputs[i]
		in.Parent.StateElement.MerkleProof = make([]Hash256, n)
		in.SatisfiedPolicy.Policy = PolicyPublicKey(PublicKey{})
		in.SatisfiedPolicy.Signatures = make([]Signature, n)
	}
	for i := range t.SiafundInputs {
		in := &t.SiafundInputs[i]
		in.Parent.StateElement.MerkleProof = make([]Hash256, n)
		in.SatisfiedPolicy.Policy = PolicyPublicKey(PublicKey{})
		in.SatisfiedPolicy.Signatures = make([]Signature, n)
	}
	for i := range t.FileContractRevisions {
		t.FileContractRevisions[i].Parent.StateElement.MerkleProof = make([]Hash256, n)
	}
	for i := range t.FileContractResolutions {
		r := &t.FileContractResolutions[i]
		r.Parent.StateElement.MerkleProof = make([]Hash256, n)
		switch resKind {
		case 0:
			r.Resolution = new(V2FileContractRenewal)
		case 1:
			sp := new(V2StorageProof)
			sp.Proof = make([]Hash256, n)
			sp.ProofIndex.StateElement.MerkleProof = make([]Hash256, n)
			r.Resolution = sp
		case 2:
			r.Resolution = new(V2FileContractExpiration)
		}
	}
	for i := range t.Attestations {
		t.Attestations[i].Key = string(make([]byte, n))
		t.Attestations[i].Value = make([]byte, n)
	}
}

// v2: ID equal <=> effect-bearing content equal (same shape)
func VH_C12_V2_ID_SameShape() {
	n := vh.Param("n", 1)
	mask := vh.Param("mask", 0x3ff)
	rk := vh.Choice("resolution.kind", 3)
	var a, b V2Transaction
	vhShapeV2(&a, mask, n, rk)
	vhShapeV2(&b, mask, n, rk)
	vh.Fill("a", &a)
	vh.Fill("b", &b)
	// the siafund claim address is checked separately (VH_C12_V2_ID_ClaimAddress)
	vh.Assert(vh.Implies(a.ID() == b.ID(), vhSemEqV2(&a, &b, false)), "v2 ID equal but effect-bearing content differs")
	vh.Assert(vh.Implies(vhSemEqV2(&a, &b, true), a.ID() == b.ID()), "v2 ID changed by incidental data (witnesses, contract/renewal signatures, parent contents, Merkle proofs)")
	vh.Reach("end")
}

// v2: the ID (and with it the input signature hash) must bind the address that
// receives a siafund input's claim
func VH_C12_V2_ID_ClaimAddress() {
	var a, b V2Transaction
	vhShapeV2(&a, 1<<2, 1, 0)
	vhShapeV2(&b, 1<<2, 1, 0)
	vh.Fill("a", &a)
	vh.Fill("b", &b)
	vh.Assert(vh.Implies(a.ID() == b.ID(), a.SiafundInputs[0].ClaimAddress == b.SiafundInputs[0].ClaimAddress), "v2 ID does not bind SiafundInputs[i].ClaimAddress")
	vh.Reach("end")
}

// v2: different resolution kinds / adjacent shapes never share an ID
func VH_C12_V2_ID_AdjacentShape() {
	n := vh.Param("n", 1)
	var a, b V2Transaction
	bit := vh.Choice("component", 10)
	base := vh.Param("mask", 0x3ff)
	rk := vh.Choice("resolution.kind", 3)
	vhShapeV2(&a, base&^(1<<bit), n, rk)
	vhShapeV2(&b, base, n, rk)
	vh.Fill("a", &a)
	vh.Fill("b", &b)
	vh.Assert(a.ID() != b.ID(), "v2 ID collision between shapes differing in one component count")
	vh.Reach("end")
}

func VH_C12_V2_ID_ResolutionKinds() {
	n := vh.Param("n", 1)
	var a, b V2Transaction
	ka := vh.Choice("kind.a", 3)
	kb := vh.Choice("kind.b", 3)
	if ka == kb {
		return
	}
	vhShapeV2(&a, 1<<6, n, ka)
	vhShapeV2(&b, 1<<6, n, kb)
	vh.Fill("a", &a)
	vh.Fill("b", &b)
	vh.Assert(a.ID() != b.ID(), "v2 ID collision between different resolution kinds")
	vh.Reach("end")
}

// derived IDs: distinct (kind, index) derivations never coincide
func VH_C12_DerivedIDs() {
	var t Transaction
	vhShapeV1(&t, 0x1ff, 1)
	vh.Fill("t", &t)
	vhFixV1Len(&t, "t.len")
	i, j := vh.Int("i"), vh.Int("j")
	vh.Assume(vh.And(i >= 0, j >= 0))
	// same transaction: kinds differ, and within a kind the index is bound
	tid := Hash256(t.ID())
	sco, sfo, fc := Hash256(t.SiacoinOutputID(i)), Hash256(t.SiafundOutputID(j)), Hash256(t.FileContractID(j))
	vh.Assert(vh.And(sco != sfo, sco != fc, sfo != fc, tid != sco, tid != sfo, tid != fc), "v1 derived ID kinds coincide")
	vh.Assert(vh.Implies(t.SiacoinOutputID(i) == t.SiacoinOutputID(j), i == j), "v1 siacoin output ID does not bind index")
	vh.Assert(vh.Implies(t.SiafundOutputID(i) == t.SiafundOutputID(j), i == j), "v1 siafund output ID does not bind index")
	vh.Assert(vh.Implies(t.FileContractID(i) == t.FileContractID(j), i == j), "v1 contract ID does not bind index")
	vh.Assert(Hash256(t.SiafundClaimOutputID(i)) != Hash256(t.SiafundOutputID(i)), "claim output ID equals siafund output ID")

	var fcid, fcid2 FileContractID
	vh.Fill("fcid", &fcid)
	vh.Fill("fcid2", &fcid2)
	ids := []Hash256{Hash256(fcid.ValidOutputID(i)), Hash256(fcid.MissedOutputID(j)), Hash256(fcid.V2RenterOutputID()),
		Hash256(fcid.V2HostOutputID()), Hash256(fcid.V2RenewalID())}
	for a := range ids {
		for b := a + 1; b < len(ids); b++ {
			vh.Assert(ids[a] != ids[b], "contract-derived ID kinds coincide")
		}
	}
	vh.Assert(vh.Implies(fcid.ValidOutputID(i) == fcid2.ValidOutputID(j), vh.And(fcid == fcid2, i == j)), "valid output ID not injective")
	vh.Assert(vh.Implies(fcid.MissedOutputID(i) == fcid2.MissedOutputID(j), vh.And(fcid == fcid2, i == j)), "missed output ID not injective")
	vh.Assert(vh.Implies(fcid.V2RenewalID() == fcid2.V2RenewalID(), fcid == fcid2), "renewal ID not injective")

	var bid, bid2 BlockID
	vh.Fill("bid", &bid)
	vh.Fill("bid2", &bid2)
	vh.Assert(Hash256(bid.MinerOutputID(i)) != Hash256(bid2.FoundationOutputID()), "miner payout ID equals foundation output ID")
	vh.Assert(vh.Implies(bid.MinerOutputID(i) == bid2.MinerOutputID(j), vh.And(bid == bid2, i == j)), "miner output ID not injective")

	var sf SiafundOutputID
	vh.Fill("sf", &sf)
	vh.Assert(Hash256(sf.ClaimOutputID()) != Hash256(sf.V2ClaimOutputID()), "v1 and v2 claim IDs coincide")

	var txid, txid2 TransactionID
	vh.Fill("txid", &txid)
	vh.Fill("txid2", &txid2)
	var v2 V2Transaction
	v2ids := []Hash256{Hash256(v2.SiacoinOutputID(txid, i)), Hash256(v2.SiafundOutputID(txid, j)), Hash256(v2.V2FileContractID(txid, i)),
		Hash256(v2.AttestationID(txid, j)), Hash256(fcid.V2RenterOutputID()), Hash256(fcid.V2RenewalID()), Hash256(sf.V2ClaimOutputID())}
	for a := range v2ids {
		for b := a + 1; b < len(v2ids); b++ {
			vh.Assert(v2ids[a] != v2ids[b], "v2 derived ID kinds coincide")
		}
	}
	// v1 vs v2 derivations of the same kind
	vh.Assert(Hash256(v2.SiacoinOutputID(txid, i)) != sco, "v1 and v2 siacoin output IDs coincide")
	vh.Assert(vh.Implies(v2.SiacoinOutputID(txid, i) == v2.SiacoinOutputID(txid2, j), vh.And(txid == txid2, i == j)), "v2 siacoin output ID not injective")
	vh.Assert(vh.Implies(v2.SiafundOutputID(txid, i) == v2.SiafundOutputID(txid2, j), vh.And(txid == txid2, i == j)), "v2 siafund output ID not injective")
	vh.Assert(vh.Implies(v2.V2FileContractID(txid, i) == v2.V2FileContractID(txid2, j), vh.And(txid == txid2, i == j)), "v2 contract ID not injective")
	vh.Assert(vh.Implies(v2.AttestationID(txid, i) == v2.AttestationID(txid2, j), vh.And(txid == txid2, i == j)), "attestation ID not injective")
	vh.Reach("end")
}

// block ID binds every header field; v1 commitment binds payouts and transactions
func VH_C12_BlockID() {
	var h1, h2 BlockHeader
	vh.Fill("h1", &h1)
	vh.Fill("h2", &h2)
	vh.Assert(vh.Implies(h1.ID() == h2.ID(), vh.Eq(h1, h2)), "block ID does not bind header")
	n := vh.Param("n", 1)
	var b1, b2 Block
	b1.MinerPayouts = make([]SiacoinOutput, n)
	b2.MinerPayouts = make([]SiacoinOutput, n)
	b1.Transactions = make([]Transaction, n)
	b2.Transactions = make([]Transaction, n)
	for i := range b1.Transactions {
		vhShapeV1(&b1.Transactions[i], vh.Param("blockmask", 0x2), 1)
		vhShapeV1(&b2.Transactions[i], vh.Param("blockmask", 0x2), 1)
	}
	vh.Fill("b1", &b1)
	vh.Fill("b2", &b2)
	lens := []int{0, 1, 8, 9, 16}
	l1 := lens[vh.Choice("b1.len", len(lens))]
	l2 := lens[vh.Choice("b2.len", len(lens))]
	vh.ForEach(&b1, func(c *Currency) { vhCurLen(c, l1) })
	vh.ForEach(&b2, func(c *Currency) { vhCurLen(c, l2) })
	vh.Assert(vh.Implies(b1.ID() == b2.ID(), vh.Eq(b1, b2)), "v1 block ID does not bind block content")
	vh.Reach("end")
}
