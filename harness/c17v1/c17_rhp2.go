package rhp

import (
	"go.sia.tech/core/consensus"
	"go.sia.tech/core/internal/vh"
	"go.sia.tech/core/types"
)

// v1-era tax inversion: for every payout target, the payout computed by
// taxAdjustedPayout satisfies the consensus equation
// payout == target + FileContractTax(payout) (post tax-hardfork rule)
func VH_C17_V1TaxInversion() {
	var target types.Currency
	vh.Fill("target", &target)
	vh.Assume(target.Hi < 1<<36) // < 2^100, far above the supply
	var p types.Currency
	vh.Assert(!vh.Panics(func() { p = taxAdjustedPayout(target) }), "taxAdjustedPayout panics")
	var cs consensus.State
	cs.Network = &consensus.Network{}
	cs.Index.Height = 100
	tax := cs.FileContractTax(types.FileContract{Payout: p})
	sum, over := target.AddWithOverflow(tax)
	vh.Assert(vh.And(!over, sum == p), "payout != target + tax(payout): the contract would be rejected by consensus")
	vh.Reach("end")
}

func vhSmall(c types.Currency) bool { return c.Hi < 1<<30 }

func vhPostTaxState() consensus.State {
	var cs consensus.State
	cs.Network = &consensus.Network{}
	cs.Index.Height = 100
	return cs
}

func vhSumOutputs(os []types.SiacoinOutput) types.Currency {
	var s types.Currency
	for _, o := range os {
		var over bool
		s, over = s.AddWithOverflow(o.Value)
		vh.Assume(!over)
	}
	return s
}

// the v1 formation rule of consensus: equal valid and missed sums, a non-empty
// window, and payout == valid sum + tax(payout). The last one is decided in
// two steps: here, payout == taxAdjustedPayout(valid sum) with the valid sum
// below 2^100 (an identity of terms); in VH_C17_V1TaxInversion, for EVERY
// target below 2^100, taxAdjustedPayout(target) == target + tax(that payout).
// (Asking for the equation directly, with the target a sum of three symbolic
// currencies, takes the integer solvers about a minute per query.)
func vhV1ContractValid(cs consensus.State, fc types.FileContract, what string) {
	valid, missed := vhSumOutputs(fc.ValidProofOutputs), vhSumOutputs(fc.MissedProofOutputs)
	vh.Assert(valid == missed, what+": valid payout sum != missed payout sum")
	vh.Assert(fc.WindowEnd > fc.WindowStart, what+": empty proof window")
	vh.Assert(valid.Hi < 1<<36, what+": valid sum outside the range of the tax-inversion lemma")
	vh.Assert(fc.Payout == taxAdjustedPayout(valid), what+": payout is not the tax-adjusted valid sum, consensus would reject it")
}

// PrepareContractFormation yields a contract that satisfies the consensus
// formation rules, with the requested payouts; ContractFormationCost is what
// the renter has to fund
func VH_C17_V1Formation() {
	var renterKey, hostKey types.PublicKey
	var renterPayout, hostCollateral, fee types.Currency
	var host HostSettings
	var refund types.Address
	var endHeight uint64
	vh.Fill("rk", &renterKey)
	vh.Fill("hk", &hostKey)
	vh.Fill("renterPayout", &renterPayout)
	vh.Fill("hostCollateral", &hostCollateral)
	vh.Fill("fee", &fee)
	vh.Fill("host.ContractPrice", &host.ContractPrice)
	vh.Fill("host.Address", &host.Address)
	vh.Fill("host.WindowSize", &host.WindowSize)
	vh.Fill("refund", &refund)
	vh.Fill("endHeight", &endHeight)
	vh.Assume(vh.And(vhSmall(renterPayout), vhSmall(hostCollateral), vhSmall(fee), vhSmall(host.ContractPrice), host.WindowSize > 0, host.WindowSize < 1<<32, endHeight < 1<<40))
	var fc types.FileContract
	vh.Assert(!vh.Panics(func() { fc = PrepareContractFormation(renterKey, hostKey, renterPayout, hostCollateral, endHeight, host, refund) }), "PrepareContractFormation panics")
	cs := vhPostTaxState()
	vhV1ContractValid(cs, fc, "formed contract")
	hostPayout, _ := host.ContractPrice.AddWithOverflow(hostCollateral)
	vh.Assert(vh.And(fc.ValidRenterPayout() == renterPayout, fc.ValidHostPayout() == hostPayout, fc.MissedHostPayout() == hostPayout,
		fc.ValidProofOutputs[0].Address == refund, fc.ValidProofOutputs[1].Address == host.Address, fc.WindowStart == endHeight, fc.RevisionNumber == 0, fc.Filesize == 0), "formed contract does not carry the requested terms")
	cost, o1 := renterPayout.AddWithOverflow(fee)
	cost, o2 := cost.AddWithOverflow(cs.FileContractTax(fc))
	vh.Assert(vh.And(!o1, !o2, ContractFormationCost(cs, fc, fee) == cost), "ContractFormationCost != renter payout + fee + tax")
	vh.Reach("end")
}

// PrepareContractRenewal: the renewed contract satisfies the formation rules,
// keeps the file, and the host's missed payout is its valid payout minus what
// goes to the void; ContractRenewalCost adds up
func VH_C17_V1Renewal() {
	var rev types.FileContractRevision
	rev.FileContract.ValidProofOutputs = make([]types.SiacoinOutput, 2)
	rev.FileContract.MissedProofOutputs = make([]types.SiacoinOutput, 3)
	vh.Fill("rev", &rev)
	var renterPayout, newCollateral, fee, minerFee types.Currency
	var host HostSettings
	var renterAddr types.Address
	var endHeight uint64
	vh.Fill("renterPayout", &renterPayout)
	vh.Fill("newCollateral", &newCollateral)
	vh.Fill("fee", &fee)
	vh.Fill("minerFee", &minerFee)
	vh.Fill("host.ContractPrice", &host.ContractPrice)
	vh.Fill("host.StoragePrice", &host.StoragePrice)
	vh.Fill("host.Collateral", &host.Collateral)
	vh.Fill("host.Address", &host.Address)
	vh.Fill("host.WindowSize", &host.WindowSize)
	vh.Fill("renterAddr", &renterAddr)
	vh.Fill("endHeight", &endHeight)
	vh.Assume(vh.And(vhSmall(renterPayout), vhSmall(newCollateral), vhSmall(fee), vhSmall(minerFee), vhSmall(host.ContractPrice), vhSmall(host.StoragePrice), vhSmall(host.Collateral),
		host.WindowSize > 0, host.WindowSize < 1<<32, endHeight < 1<<40, rev.FileContract.WindowEnd < 1<<40))
	var fc types.FileContract
	var basePrice types.Currency
	if vh.Panics(func() { fc, basePrice = PrepareContractRenewal(rev, renterAddr, renterPayout, newCollateral, host, endHeight) }) {
		vh.Reach("product-overflow") // price x size x duration beyond 2^128 (or sums beyond it): outside the claim
		return
	}
	vh.Assume(vh.And(vhSmall(basePrice), vhSmall(fc.ValidHostPayout())))
	cs := vhPostTaxState()
	vhV1ContractValid(cs, fc, "renewed contract")
	vh.Assert(vh.And(fc.Filesize == rev.FileContract.Filesize, fc.FileMerkleRoot == rev.FileContract.FileMerkleRoot, fc.UnlockHash == rev.FileContract.UnlockHash,
		fc.RevisionNumber == 0, fc.WindowStart == endHeight, fc.ValidRenterPayout() == renterPayout), "renewed contract does not keep the file / keys / requested payout")
	hm, o0 := fc.MissedHostPayout().AddWithOverflow(fc.MissedProofOutputs[2].Value)
	vh.Assert(vh.And(!o0, hm == fc.ValidHostPayout()), "host missed payout + void payout != host valid payout")
	cost, o1 := renterPayout.AddWithOverflow(fee)
	cost, o2 := cost.AddWithOverflow(minerFee)
	cost, o3 := cost.AddWithOverflow(basePrice)
	cost, o4 := cost.AddWithOverflow(cs.FileContractTax(fc))
	vh.Assert(vh.And(!o1, !o2, !o3, !o4, ContractRenewalCost(cs, fc, fee, minerFee, basePrice) == cost), "ContractRenewalCost != renter payout + fees + base price + tax")
	vh.Reach("end")
}
