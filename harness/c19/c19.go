package rhp

import (
	"bytes"
	"errors"

	"go.sia.tech/core/internal/vh"
	"go.sia.tech/core/types"
)

func vhEncLen(o Object) int {
	var buf bytes.Buffer
	e := types.NewEncoder(&buf)
	o.encodeTo(e)
	e.Flush()
	return buf.Len()
}

// batch objects: encoded size is affine in the element count (measured with the
// real encoder on symbolic contents at counts 0..3) and the size at the
// protocol's maximum batch size fits within the limit the receiver applies
func VH_C19_BatchLimits() {
	type probe struct {
		name  string
		mk    func(k int) Object
		limit int
	}
	probes := []probe{
		{"RPCFundAccountsRequest", func(k int) Object {
			r := &RPCFundAccountsRequest{Deposits: make([]AccountDeposit, k)}
			vh.Fill("v", r)
			return r
		}, MaxAccountBatchSize},
		{"RPCFundAccountsResponse", func(k int) Object {
			r := &RPCFundAccountsResponse{Balances: make([]types.Currency, k)}
			vh.Fill("v", r)
			return r
		}, MaxAccountBatchSize},
		{"RPCReplenishAccountsRequest", func(k int) Object {
			r := &RPCReplenishAccountsRequest{Accounts: make([]Account, k)}
			vh.Fill("v", r)
			return r
		}, MaxAccountBatchSize},
		{"RPCReplenishAccountsResponse", func(k int) Object {
			r := &RPCReplenishAccountsResponse{Deposits: make([]AccountDeposit, k)}
			vh.Fill("v", r)
			return r
		}, MaxAccountBatchSize},
	}
	p := probes[vh.Choice("object", len(probes))]
	var l [4]int
	for k := 0; k < 4; k++ {
		l[k] = vhEncLen(p.mk(k))
	}
	per := l[1] - l[0]
	vh.Assert(vh.And(l[2]-l[1] == per, l[3]-l[2] == per, per > 0), "encoded size is not affine in the element count")
	max := p.mk(0).maxLen()
	vh.Assert(l[0]+p.limit*per <= max, "a message with the maximum valid batch size exceeds the length limit the receiver applies")
	vh.Reach("end")
}

// an error response is always delivered as that error, and the object is not filled
func VH_C19_ErrorResponse() {
	n := vh.Param("desclen", 8)
	e := &RPCError{Code: vh.U8("code"), Description: string(vh.Bytes("desc", n))}
	var buf bytes.Buffer
	vh.Assert(WriteResponse(&buf, e) == nil, "WriteResponse fails")
	var resp RPCFundAccountsResponse
	err := ReadResponse(bytes.NewReader(buf.Bytes()), &resp)
	var got *RPCError
	ok := errors.As(err, &got)
	vh.Assert(ok, "error response not delivered as an RPCError")
	if ok {
		vh.Assert(vh.And(got.Code == e.Code, vh.Eq(got.Description, e.Description)), "error response altered in transit")
	}
	vh.Assert(len(resp.Balances) == 0, "object filled although an error was sent")
	vh.Reach("end")
}

// a peer cannot make the receiver read more than maxLen bytes: a stream of
// maxLen+N arbitrary bytes leaves at least N bytes unread
func VH_C19_ReadBounded() {
	var req RPCVerifySectorRequest
	max := req.maxLen()
	extra := 8
	stream := vh.Bytes("stream", max+extra)
	r := bytes.NewReader(stream)
	_ = ReadRequest(r, &req)
	vh.Assert(r.Len() >= extra, "receiver read past the message length limit")
	vh.Reach("end")
}
