package rhp

import (
	"go.sia.tech/core/consensus"
	"go.sia.tech/core/internal/vh"
	"go.sia.tech/core/types"
)

func vhSmall(c types.Currency) bool { return c.Hi < 1<<40 }

// a contract consensus would accept (value relations of validateContract) with
// values far below the supply
func vhValidContract(name string) types.V2FileContract {
	var fc types.V2FileContract
	vh.Fill(name, &fc)
	vh.Assume(vh.And(vhSmall(fc.RenterOutput.Value), vhSmall(fc.HostOutput.Value),
		fc.MissedHostValue.Cmp(fc.HostOutput.Value) <= 0, fc.TotalCollateral.Cmp(fc.HostOutput.Value) <= 0,
		fc.Filesize <= fc.Capacity, fc.ExpirationHeight > fc.ProofHeight))
	return fc
}

func vhAdd(a, b types.Currency) types.Currency {
	s, o := a.AddWithOverflow(b)
	vh.Assume(!o)
	return s
}

// PayWithContract: total fixed, renter charged exactly the usage, exactly the
// reported collateral risked, clean failure iff funds are insufficient
func VH_C17_PayWithContract() {
	fc := vhValidContract("fc")
	var u Usage
	vh.Fill("u", &u)
	vh.Assume(vh.And(vhSmall(u.RPC), vhSmall(u.Storage), vhSmall(u.Egress), vhSmall(u.Ingress), vhSmall(u.AccountFunding), vhSmall(u.RiskedCollateral)))
	vh.Assume(fc.RevisionNumber < 1<<63)
	cost := vhAdd(vhAdd(vhAdd(vhAdd(u.RPC, u.Storage), u.Egress), u.Ingress), u.AccountFunding)
	rev := fc
	var err error
	vh.Assert(!vh.Panics(func() { err = PayWithContract(&rev, u) }), "PayWithContract panics")
	enough := vh.And(fc.RenterOutput.Value.Cmp(cost) >= 0, fc.MissedHostValue.Cmp(u.RiskedCollateral) >= 0)
	vh.Assert((err == nil) == enough, "PayWithContract fails iff funds are insufficient")
	if err != nil {
		vh.Reach("insufficient")
		return
	}
	vh.Assert(vhAdd(rev.RenterOutput.Value, rev.HostOutput.Value) == vhAdd(fc.RenterOutput.Value, fc.HostOutput.Value), "revision changes the contract's total value")
	vh.Assert(vhAdd(rev.RenterOutput.Value, cost) == fc.RenterOutput.Value, "renter not charged exactly the usage")
	vh.Assert(vhAdd(rev.MissedHostValue, u.RiskedCollateral) == fc.MissedHostValue, "missed host value not lowered by exactly the risked collateral")
	vh.Assert(vh.And(rev.TotalCollateral == fc.TotalCollateral, rev.RevisionNumber == fc.RevisionNumber+1), "total collateral / revision number")
	vh.Assert(vh.And(rev.MissedHostValue.Cmp(rev.HostOutput.Value) <= 0, rev.MissedHostValue.Cmp(fc.MissedHostValue) <= 0), "revision would be rejected by consensus (missed host value)")
	vh.Reach("paid")
}

// RenewContract: old value split exactly into final outputs and rollovers,
// rollovers never exceed what the new contract needs, and the reported costs
// plus rollovers fund the new contract, its tax and the fee exactly
func VH_C17_Renew() {
	fc := vhValidContract("fc")
	var p HostPrices
	vh.Fill("prices", &p)
	var rp RPCRenewContractParams
	vh.Fill("rp", &rp)
	var hostAddr types.Address
	vh.Fill("hostaddr", &hostAddr)
	var fee types.Currency
	vh.Fill("fee", &fee)
	vh.Assume(vh.And(vhSmall(p.ContractPrice), vhSmall(p.Collateral), vhSmall(p.StoragePrice), vhSmall(rp.Allowance), vhSmall(rp.Collateral), vhSmall(fee)))
	// what the request validation guarantees about heights
	vh.Assume(vh.And(rp.ProofHeight < 1<<40, p.TipHeight < rp.ProofHeight, fc.ExpirationHeight <= rp.ProofHeight+ProofWindow, fc.Filesize < 1<<50))
	var r types.V2FileContractRenewal
	if vh.Panics(func() { r, _ = RenewContract(fc, p, hostAddr, rp) }) {
		// price x size x duration products beyond 2^128: outside the claim
		vh.Reach("product-overflow")
		return
	}
	nc := r.NewContract
	vh.Assume(vh.And(vhSmall(nc.HostOutput.Value), vhSmall(nc.TotalCollateral)))
	vh.Assert(vhAdd(r.FinalRenterOutput.Value, r.RenterRollover) == fc.RenterOutput.Value, "renter: final output + rollover != old output")
	vh.Assert(vhAdd(r.FinalHostOutput.Value, r.HostRollover) == fc.HostOutput.Value, "host: final output + rollover != old output")
	vh.Assert(r.RenterRollover.Cmp(nc.RenterOutput.Value) <= 0, "renter rolls over more than the new allowance")
	vh.Assert(r.HostRollover.Cmp(nc.TotalCollateral) <= 0, "host rolls over more than the new contract locks")
	vh.Assert(vh.And(nc.MissedHostValue.Cmp(nc.HostOutput.Value) <= 0, nc.TotalCollateral.Cmp(nc.HostOutput.Value) <= 0), "new contract violates consensus value relations")
	var cs consensus.State
	var rc, hc types.Currency
	vh.Assert(!vh.Panics(func() { rc, hc = RenewalCost(cs, r, fee) }), "RenewalCost panics")
	tax := cs.V2FileContractTax(nc)
	lhs := vhAdd(vhAdd(vhAdd(rc, hc), r.RenterRollover), r.HostRollover)
	rhs := vhAdd(vhAdd(vhAdd(nc.RenterOutput.Value, nc.HostOutput.Value), tax), fee)
	vh.Assert(lhs == rhs, "costs + rollovers do not fund the new contract, tax and fee exactly")
	vh.Reach("end")
}
