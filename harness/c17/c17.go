package rhp

import (
	"go.sia.tech/core/consensus"
	"go.sia.tech/core/internal/vh"
	"go.sia.tech/core/types"
)

func vhSmall(c types.Currency) bool { return c.Hi < 1<<40 }

// a contract consensus would accept (value relations of validateContract) with
// values far below the supply
func vhValidContract(name string) types.V2FileContract {
	var fc types.V2FileContract
	vh.Fill(name, &fc)
	vh.Assume(vh.And(vhSmall(fc.RenterOutput.Value), vhSmall(fc.HostOutput.Value),
		fc.MissedHostValue.Cmp(fc.HostOutput.Value) <= 0, fc.TotalCollateral.Cmp(fc.HostOutput.Value) <= 0,
		fc.Filesize <= fc.Capacity, fc.ExpirationHeight > fc.ProofHeight))
	return fc
}

func vhAdd(a, b types.Currency) types.Currency {
	s, o := a.AddWithOverflow(b)
	vh.Assume(!o)
	return s
}

// PayWithContract: total fixed, renter charged exactly the usage, exactly the
// reported collateral risked, clean failure iff funds are insufficient
func VH_C17_PayWithContract() {
	fc := vhValidContract("fc")
	var u Usage
	vh.Fill("u", &u)
	vh.Assume(vh.And(vhSmall(u.RPC), vhSmall(u.Storage), vhSmall(u.Egress), vhSmall(u.Ingress), vhSmall(u.AccountFunding), vhSmall(u.RiskedCollateral)))
	vh.Assume(fc.RevisionNumber < 1<<63)
	cost := vhAdd(vhAdd(vhAdd(vhAdd(u.RPC, u.Storage), u.Egress), u.Ingress), u.AccountFunding)
	rev := fc
	var err error
	vh.Assert(!vh.Panics(func() { err = PayWithContract(&rev, u) }), "PayWithContract panics")
	enough := vh.And(fc.RenterOutput.Value.Cmp(cost) >= 0, fc.MissedHostValue.Cmp(u.RiskedCollateral) >= 0)
	vh.Assert((err == nil) == enough, "PayWithContract fails iff funds are insufficient")
	if err != nil {
		vh.Reach("insufficient")
		return
	}
	vh.Assert(vhAdd(rev.RenterOutput.Value, rev.HostOutput.Value) == vhAdd(fc.RenterOutput.Value, fc.HostOutput.Value), "revision changes the contract's total value")
	vh.Assert(vhAdd(rev.RenterOutput.Value, cost) == fc.RenterOutput.Value, "renter not charged exactly the usage")
	vh.Assert(vhAdd(rev.MissedHostValue, u.RiskedCollateral) == fc.MissedHostValue, "missed host value not lowered by exactly the risked collateral")
	vh.Assert(vh.And(rev.TotalCollateral == fc.TotalCollateral, rev.RevisionNumber == fc.RevisionNumber+1), "total collateral / revision number")
	vh.Assert(vh.And(rev.MissedHostValue.Cmp(rev.HostOutput.Value) <= 0, rev.MissedHostValue.Cmp(fc.MissedHostValue) <= 0), "revision would be rejected by consensus (missed host value)")
	vh.Reach("paid")
}

// RenewContract: old value split exactly into final outputs and rollovers,
// rollovers never exceed what the new contract needs, and the reported costs
// plus rollovers fund the new contract, its tax and the fee exactly
func VH_C17_Renew() {
	fc := vhValidContract("fc")
	var p HostPrices
	vh.Fill("prices", &p)
	var rp RPCRenewContractParams
	vh.Fill("rp", &rp)
	var hostAddr types.Address
	vh.Fill("hostaddr", &hostAddr)
	var fee types.Currency
	vh.Fill("fee", &fee)
	vh.Assume(vh.And(vhSmall(p.ContractPrice), vhSmall(p.Collateral), vhSmall(p.StoragePrice), vhSmall(rp.Allowance), vhSmall(rp.Collateral), vhSmall(fee)))
	// what the request validation guarantees about heights
	vh.Assume(vh.And(rp.ProofHeight < 1<<40, p.TipHeight < rp.ProofHeight, fc.ExpirationHeight <= rp.ProofHeight+ProofWindow, fc.Filesize < 1<<50))
	var r types.V2FileContractRenewal
	if vh.Panics(func() { r, _ = RenewContract(fc, p, hostAddr, rp) }) {
		// price x size x duration products beyond 2^128: outside the claim
		vh.Reach("product-overflow")
		return
	}
	nc := r.NewContract
	vh.Assume(vh.And(vhSmall(nc.HostOutput.Value), vhSmall(nc.TotalCollateral)))
	vh.Assert(vhAdd(r.FinalRenterOutput.Value, r.RenterRollover) == fc.RenterOutput.Value, "renter: final output + rollover != old output")
	vh.Assert(vhAdd(r.FinalHostOutput.Value, r.HostRollover) == fc.HostOutput.Value, "host: final output + rollover != old output")
	vh.Assert(r.RenterRollover.Cmp(nc.RenterOutput.Value) <= 0, "renter rolls over more than the new allowance")
	vh.Assert(r.HostRollover.Cmp(nc.TotalCollateral) <= 0, "host rolls over more than the new contract locks")
	vh.Assert(vh.And(nc.MissedHostValue.Cmp(nc.HostOutput.Value) <= 0, nc.TotalCollateral.Cmp(nc.HostOutput.Value) <= 0), "new contract violates consensus value relations")
	var cs consensus.State
	var rc, hc types.Currency
	vh.Assert(!vh.Panics(func() { rc, hc = RenewalCost(cs, r, fee) }), "RenewalCost panics")
	tax := cs.V2FileContractTax(nc)
	lhs := vhAdd(vhAdd(vhAdd(rc, hc), r.RenterRollover), r.HostRollover)
	rhs := vhAdd(vhAdd(vhAdd(nc.RenterOutput.Value, nc.HostOutput.Value), tax), fee)
	vh.Assert(lhs == rhs, "costs + rollovers do not fund the new contract, tax and fee exactly")
	vh.Reach("end")
}

// NewContract + ContractCost: the two parties' costs fund the contract, its tax
// and the fee exactly; the contract satisfies the consensus value relations
func VH_C17_Form() {
	var p HostPrices
	vh.Fill("prices", &p)
	var cp RPCFormContractParams
	vh.Fill("cp", &cp)
	var hostKey types.PublicKey
	var hostAddr types.Address
	var fee types.Currency
	vh.Fill("hostkey", &hostKey)
	vh.Fill("hostaddr", &hostAddr)
	vh.Fill("fee", &fee)
	vh.Assume(vh.And(vhSmall(p.ContractPrice), vhSmall(cp.Allowance), vhSmall(cp.Collateral), vhSmall(fee), cp.ProofHeight < 1<<40))
	var fc types.V2FileContract
	var u Usage
	vh.Assert(!vh.Panics(func() { fc, u = NewContract(p, cp, hostKey, hostAddr) }), "NewContract panics")
	vh.Assert(vh.And(fc.MissedHostValue.Cmp(fc.HostOutput.Value) <= 0, fc.TotalCollateral.Cmp(fc.HostOutput.Value) <= 0, fc.Filesize <= fc.Capacity,
		fc.ExpirationHeight > fc.ProofHeight, fc.MissedHostValue.Cmp(fc.TotalCollateral) <= 0), "new contract violates consensus value relations")
	vh.Assert(vh.And(fc.RenterOutput.Value == cp.Allowance, fc.RenterOutput.Address == cp.RenterAddress, fc.HostOutput.Address == hostAddr,
		fc.RenterPublicKey == cp.RenterPublicKey, fc.HostPublicKey == hostKey, fc.RevisionNumber == 0, fc.ProofHeight == cp.ProofHeight), "new contract does not carry the requested terms")
	vh.Assert(vh.And(u.RPC == p.ContractPrice, u.RenterCost() == p.ContractPrice), "formation usage is not the contract price")
	var cs consensus.State
	var rc, hc types.Currency
	vh.Assert(!vh.Panics(func() { rc, hc = ContractCost(cs, fc, fee) }), "ContractCost panics")
	tax := cs.V2FileContractTax(fc)
	vh.Assert(vhAdd(rc, hc) == vhAdd(vhAdd(vhAdd(fc.RenterOutput.Value, fc.HostOutput.Value), tax), fee), "costs do not fund the contract, tax and fee exactly")
	vh.Assert(vh.And(hc == cp.Collateral, rc == vhAdd(vhAdd(vhAdd(cp.Allowance, p.ContractPrice), fee), tax)), "cost split: host pays its collateral, renter the rest")
	vh.Reach("end")
}

// RefreshContract{Partial,Full}Rollover + RefreshCost from a contract in the
// state RHP4 keeps it in (missed host value <= total collateral <= host output)
func VH_C17_Refresh() {
	fc := vhValidContract("fc")
	vh.Assume(fc.MissedHostValue.Cmp(fc.TotalCollateral) <= 0)
	var p HostPrices
	vh.Fill("prices", &p)
	var rp RPCRefreshContractParams
	vh.Fill("rp", &rp)
	var hostAddr types.Address
	var fee types.Currency
	vh.Fill("hostaddr", &hostAddr)
	vh.Fill("fee", &fee)
	vh.Assume(vh.And(vhSmall(p.ContractPrice), vhSmall(rp.Allowance), vhSmall(rp.Collateral), vhSmall(fee)))
	full := vh.Choice("variant", 2) == 1
	var r types.V2FileContractRenewal
	var u Usage
	if full {
		vh.Assert(!vh.Panics(func() { r, u = RefreshContractFullRollover(fc, p, hostAddr, rp) }), "RefreshContractFullRollover panics")
	} else {
		vh.Assert(!vh.Panics(func() { r, u = RefreshContractPartialRollover(fc, p, hostAddr, rp) }), "RefreshContractPartialRollover panics")
	}
	nc := r.NewContract
	// what consensus demands of a renewal
	total := vhAdd(vhAdd(vhAdd(r.FinalRenterOutput.Value, r.RenterRollover), r.FinalHostOutput.Value), r.HostRollover)
	vh.Assert(total == vhAdd(fc.RenterOutput.Value, fc.HostOutput.Value), "final outputs + rollovers != value of the old contract")
	vh.Assert(vhAdd(r.FinalRenterOutput.Value, r.RenterRollover) == fc.RenterOutput.Value, "renter: final output + rollover != old output")
	vh.Assert(vhAdd(r.FinalHostOutput.Value, r.HostRollover) == fc.HostOutput.Value, "host: final output + rollover != old output")
	vh.Assert(vhAdd(r.RenterRollover, r.HostRollover).Cmp(vhAdd(nc.RenterOutput.Value, nc.HostOutput.Value)) <= 0, "rollover exceeds the new contract's cost")
	vh.Assert(vh.And(nc.MissedHostValue.Cmp(nc.HostOutput.Value) <= 0, nc.TotalCollateral.Cmp(nc.HostOutput.Value) <= 0, nc.MissedHostValue.Cmp(nc.TotalCollateral) <= 0),
		"refreshed contract violates the value relations")
	// the data stays covered: same file, same window, same keys, fresh revision number
	vh.Assert(vh.And(nc.Filesize == fc.Filesize, nc.Capacity == fc.Capacity, nc.FileMerkleRoot == fc.FileMerkleRoot, nc.ProofHeight == fc.ProofHeight,
		nc.ExpirationHeight == fc.ExpirationHeight, nc.RenterPublicKey == fc.RenterPublicKey, nc.HostPublicKey == fc.HostPublicKey, nc.RevisionNumber == 0,
		nc.HostOutput.Address == hostAddr, nc.RenterOutput.Address == fc.RenterOutput.Address), "refresh changes the file, window or keys")
	// collateral already at risk stays at risk, the new collateral is added on top
	vh.Assert(nc.RiskedCollateral() == fc.RiskedCollateral(), "refresh changes the collateral at risk for the stored data")
	vh.Assert(nc.TotalCollateral.Cmp(rp.Collateral) >= 0, "refreshed contract locks less than the requested collateral")
	vh.Assert(vh.And(u.RPC == p.ContractPrice, u.RiskedCollateral == nc.RiskedCollateral()), "refresh usage")
	var cs consensus.State
	var rc, hc types.Currency
	vh.Assert(!vh.Panics(func() { rc, hc = RefreshCost(cs, p, r, fee) }), "RefreshCost panics")
	tax := cs.V2FileContractTax(nc)
	lhs := vhAdd(vhAdd(vhAdd(rc, hc), r.RenterRollover), r.HostRollover)
	rhs := vhAdd(vhAdd(vhAdd(nc.RenterOutput.Value, nc.HostOutput.Value), tax), fee)
	vh.Assert(lhs == rhs, "costs + rollovers do not fund the refreshed contract, tax and fee exactly")
	vh.Reach("end")
}
