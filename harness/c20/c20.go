package types

import (
	"go.sia.tech/core/internal/vh"
)

func vhIsHex(c byte) bool {
	return vh.Or(vh.And(c >= '0', c <= '9'), vh.And(c >= 'a', c <= 'f'), vh.And(c >= 'A', c <= 'F'))
}

func vhLower(c byte) byte {
	return byte(vh.Ite64(vh.And(c >= 'A', c <= 'F'), uint64(c)+32, uint64(c)))
}

// 32-byte identifiers: text form parses back to the same value; any 64-character
// text that parses is over the hex alphabet and re-prints as its lower-case
// form; texts of any other length are rejected.
func VH_C20_Hash256Text() {
	var h Hash256
	vh.Fill("h", &h)
	b, err := h.MarshalText()
	vh.Assert(vh.And(err == nil, len(b) == 64), "MarshalText failed")
	var g Hash256
	vh.Assert(g.UnmarshalText(b) == nil, "own text form rejected")
	vh.Assert(g == h, "own text form parses to a different value")
	vh.Assert(h.String() == string(b), "String and MarshalText differ")
	vh.Reach("roundtrip")
}

func VH_C20_Hash256Parse() {
	n := vh.Choice("len", 67)
	txt := vh.Bytes("txt", n)
	var p Hash256
	perr := p.UnmarshalText(txt)
	if n != 64 {
		vh.Assert(perr != nil, "identifier text of the wrong length accepted")
		vh.Reach("wrong-length")
		return
	}
	if perr != nil {
		vh.Reach("rejected")
		return
	}
	out, _ := p.MarshalText()
	for i := 0; i < 64; i++ {
		vh.Assert(vhIsHex(txt[i]), "non-hex character accepted")
		vh.Assert(out[i] == vhLower(txt[i]), "accepted text re-prints differently")
	}
	vh.Reach("accepted")
}

// ChainIndex text: "<height>::<64 hex>"; arbitrary ID part never panics, the
// wrong length is rejected, accepted text is hex and parses to the printed ID
func VH_C20_ChainIndexParse() {
	vh.NoPanic()
	n := vh.Choice("len", 70)
	hexpart := vh.Bytes("txt", n)
	for i := range hexpart {
		vh.Assume(hexpart[i] != ':') // one separator only (more are rejected by the separator count)
	}
	txt := append([]byte("5::"), hexpart...)
	var p ChainIndex
	perr := p.UnmarshalText(txt)
	if n != 64 {
		vh.Assert(perr != nil, "chain index text with an ID of the wrong length accepted")
		vh.Reach("wrong-length")
		return
	}
	if perr != nil {
		vh.Reach("rejected")
		return
	}
	vh.Assert(p.Height == 5, "height parsed wrongly")
	out := p.ID.String()
	for i := 0; i < 64; i++ {
		vh.Assert(vhIsHex(hexpart[i]), "non-hex character accepted")
		vh.Assert(out[i] == vhLower(hexpart[i]), "accepted text re-prints differently")
	}
	vh.Reach("accepted")
}

type vhText interface {
	MarshalText() ([]byte, error)
	String() string
}

// every 32-byte identifier type and the 64-byte signature: own text form parses
// back to the same value, String agrees with MarshalText
func VH_C20_IDsText() {
	var raw [32]byte
	vh.Fill("raw", &raw)
	var m vhText
	var back func(b []byte) (error, bool)
	switch vh.Choice("type", 8) {
	case 0:
		v := Hash256(raw)
		m, back = v, func(b []byte) (error, bool) { var g Hash256; e := g.UnmarshalText(b); return e, g == v }
	case 1:
		v := BlockID(raw)
		m, back = v, func(b []byte) (error, bool) { var g BlockID; e := g.UnmarshalText(b); return e, g == v }
	case 2:
		v := TransactionID(raw)
		m, back = v, func(b []byte) (error, bool) { var g TransactionID; e := g.UnmarshalText(b); return e, g == v }
	case 3:
		v := AttestationID(raw)
		m, back = v, func(b []byte) (error, bool) { var g AttestationID; e := g.UnmarshalText(b); return e, g == v }
	case 4:
		v := SiacoinOutputID(raw)
		m, back = v, func(b []byte) (error, bool) { var g SiacoinOutputID; e := g.UnmarshalText(b); return e, g == v }
	case 5:
		v := SiafundOutputID(raw)
		m, back = v, func(b []byte) (error, bool) { var g SiafundOutputID; e := g.UnmarshalText(b); return e, g == v }
	case 6:
		v := FileContractID(raw)
		m, back = v, func(b []byte) (error, bool) { var g FileContractID; e := g.UnmarshalText(b); return e, g == v }
	case 7:
		v := PublicKey(raw)
		m, back = v, func(b []byte) (error, bool) { var g PublicKey; e := g.UnmarshalText(b); return e, g == v }
	}
	b, err := m.MarshalText()
	vh.Assert(err == nil, "MarshalText failed")
	vh.Assert(m.String() == string(b), "String and MarshalText differ")
	e, same := back(b)
	vh.Assert(e == nil, "own text form rejected")
	vh.Assert(same, "own text form parses to a different value")
	vh.Reach("roundtrip")
}

func VH_C20_SignatureText() {
	var s Signature
	vh.Fill("sig", &s)
	b, err := s.MarshalText()
	vh.Assert(vh.And(err == nil, len(b) == 128), "MarshalText failed")
	var g Signature
	vh.Assert(g.UnmarshalText(b) == nil, "own text form rejected")
	vh.Assert(g == s, "own text form parses to a different value")
	vh.Reach("roundtrip")
}

// checksummed addresses
func VH_C20_AddressText() {
	var a Address
	vh.Fill("a", &a)
	b, err := a.MarshalText()
	vh.Assert(vh.And(err == nil, len(b) == 76), "MarshalText failed")
	vh.Assert(a.String() == string(b), "String and MarshalText differ")
	var g Address
	vh.Assert(g.UnmarshalText(b) == nil, "own text form rejected")
	vh.Assert(g == a, "own text form parses to a different value")
	g2, e2 := ParseAddress(string(b))
	vh.Assert(vh.And(e2 == nil, g2 == a), "ParseAddress disagrees with UnmarshalText")
	vh.Reach("roundtrip")
}

// an accepted address text is 76 hex characters whose last 12 spell the first 6
// bytes of the hash of the 32 bytes spelled by the first 64
func VH_C20_AddressParse() {
	vh.NoPanic()
	n := vh.Choice("len", 80)
	txt := vh.Bytes("txt", n)
	var p Address
	perr := p.UnmarshalText(txt)
	if n != 76 {
		vh.Assert(perr != nil, "address text of the wrong length accepted")
		vh.Reach("wrong-length")
		return
	}
	if perr != nil {
		vh.Reach("rejected")
		return
	}
	out, _ := p.MarshalText()
	for i := 0; i < 76; i++ {
		vh.Assert(vhIsHex(txt[i]), "non-hex character accepted")
		vh.Assert(out[i] == vhLower(txt[i]), "accepted address re-prints differently (checksum not verified over these bytes)")
	}
	vh.Reach("accepted")
}

// public keys: accepted text has exactly the prefix "ed25519:"
func VH_C20_PublicKeyParse() {
	vh.NoPanic()
	np := vh.Choice("prefixlen", 10)
	pre := vh.Bytes("prefix", np)
	n := 62 + vh.Choice("len", 5)
	hexpart := vh.Bytes("txt", n)
	for i := range hexpart {
		vh.Assume(hexpart[i] != ':')
	}
	for i := 0; i+1 < np; i++ {
		vh.Assume(pre[i] != ':') // the separator, if any, is the last prefix character
	}
	txt := append(append([]byte{}, pre...), hexpart...)
	var p PublicKey
	perr := p.UnmarshalText(txt)
	if perr != nil {
		vh.Reach("rejected")
		return
	}
	vh.Assert(n == 64, "public key text of the wrong length accepted")
	vh.Assert(string(pre) == "ed25519:", "public key accepted with a wrong prefix")
	out := p.String()
	for i := 0; i < 64; i++ {
		vh.Assert(out[8+i] == vhLower(hexpart[i]), "accepted text re-prints differently")
	}
	vh.Reach("accepted")
}
