package rhp

import (
	"go.sia.tech/core/internal/vh"
)

func vhIsHex(c byte) bool {
	return vh.Or(vh.And(c >= '0', c <= '9'), vh.And(c >= 'a', c <= 'f'), vh.And(c >= 'A', c <= 'F'))
}

func vhLower(c byte) byte {
	return byte(vh.Ite64(vh.And(c >= 'A', c <= 'F'), uint64(c)+32, uint64(c)))
}

// Account text form: round trip; arbitrary text never panics; accepted text
// is (optionally prefixed) 64 hex characters and re-prints canonically
func VH_C20_AccountText() {
	var a Account
	vh.Fill("a", &a)
	b, err := a.MarshalText()
	vh.Assert(vh.And(err == nil, len(b) == 72), "MarshalText failed")
	var g Account
	vh.Assert(g.UnmarshalText(b) == nil, "own text form rejected")
	vh.Assert(g == a, "own text form parses to a different value")
	vh.Reach("roundtrip")
}

func VH_C20_AccountParse() {
	vh.NoPanic()
	const pre = "ed25519:"
	withPrefix := vh.Choice("prefix", 2) == 1
	n := vh.Choice("len", 70)
	hexpart := vh.Bytes("txt", n)
	txt := hexpart
	if withPrefix {
		txt = append([]byte(pre), hexpart...)
	}
	var p Account
	perr := p.UnmarshalText(txt)
	if n != 64 {
		vh.Assert(perr != nil, "account text of the wrong length accepted")
		vh.Reach("wrong-length")
		return
	}
	if perr != nil {
		vh.Reach("rejected")
		return
	}
	out, _ := p.MarshalText()
	for i := 0; i < 64; i++ {
		vh.Assert(vhIsHex(hexpart[i]), "non-hex character accepted")
		vh.Assert(out[len(pre)+i] == vhLower(hexpart[i]), "accepted text re-prints differently")
	}
	vh.Reach("accepted")
}
