package consensus

import (
	"go.sia.tech/core/internal/vh"
	"go.sia.tech/core/types"
)

// validation and application write neither to the transaction / state passed
// in nor to package-level memory, and DeepCopy shares no memory with its original
func VH_C09_NoSideEffects() {
	_, s := vhWorld("w")
	vh.Assume(s.childHeight() >= s.Network.HardforkV2.AllowHeight)
	k := vh.Choice("shape", 3)
	mask := []int{3, 32, 64}[k]
	rk := 2
	if mask == 64 {
		rk = vh.Choice("resolution.kind", 3)
	}
	txn := vhV2Txn("t", mask, 1, rk, 0, false)
	vhGenuineV2(s, &txn)
	ms := NewMidState(s)
	vh.MarkCaller(&txn)
	vh.MarkCaller(&s)
	vh.TrackWrites(true)
	err := ValidateV2Transaction(ms, txn)
	_ = s.Elements.ValidateTransactionElements(txn)
	vh.TrackWrites(false)
	vh.Assert(vh.WriteEvents() == 0, "validation wrote to its inputs or to package-level memory")
	if err != nil {
		vh.Reach("rejected")
		return
	}
	vh.TrackWrites(true)
	ms.ApplyV2Transaction(txn)
	vh.TrackWrites(false)
	vh.Assert(vh.WriteEvents() == 0, "application wrote to the transaction, the state or package-level memory")
	vh.Reach("applied")
}

func VH_C09_DeepCopy() {
	txn := vhV2Txn("t", 0x1ff, 1, vh.Choice("resolution.kind", 3), vh.Choice("policy.kind", 3), false)
	vh.ForEach(&txn, func(se *types.StateElement) { *se = se.Copy() }) // shared flag is not part of the value
	c := txn.DeepCopy()
	vh.Assert(vh.Eq(txn, c), "DeepCopy is not equal to the original")
	vh.MarkCaller(&txn)
	vh.TrackWrites(true)
	// overwrite every byte string, hash and proof reachable from the copy
	vh.ForEach(&c, func(h *types.Hash256) { h[0] ^= 0xff })
	vh.ForEach(&c, func(a *types.Address) { a[0] ^= 0xff })
	vh.ForEach(&c, func(sg *types.Signature) { sg[0] ^= 0xff })
	vh.ForEach(&c, func(se *types.StateElement) {
		for i := range se.MerkleProof {
			se.MerkleProof[i][1] ^= 0xff
		}
	})
	for i := range c.FileContractResolutions {
		if r, ok := c.FileContractResolutions[i].Resolution.(*types.V2FileContractRenewal); ok {
			r.RenterRollover.Lo ^= 1
		}
	}
	for i := range c.SiacoinInputs {
		switch p := c.SiacoinInputs[i].SatisfiedPolicy.Policy.Type.(type) {
		case types.PolicyTypeThreshold:
			for j := range p.Of {
				p.Of[j] = types.PolicyAbove(7)
			}
		case types.PolicyTypeUnlockConditions:
			for j := range p.PublicKeys {
				p.PublicKeys[j].Algorithm[0] ^= 0xff
			}
		}
	}
	for i := range c.ArbitraryData {
		c.ArbitraryData[i] ^= 0xff
	}
	for i := range c.Attestations {
		for j := range c.Attestations[i].Value {
			c.Attestations[i].Value[j] ^= 0xff
		}
	}
	vh.ForEach(&c, func(k *types.UnlockKey) {
		for i := range k.Key {
			k.Key[i] ^= 0xff
		}
	})
	vh.TrackWrites(false)
	vh.Assert(vh.WriteEvents() == 0, "DeepCopy shares memory with its original")
	vh.Reach("end")
}
