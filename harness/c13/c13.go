package consensus

import (
	"math/bits"
	"time"

	"go.sia.tech/core/internal/vh"
	"go.sia.tech/core/types"
)

func vhWork(name string) Work {
	var w Work
	vh.Fill(name, &w)
	return w
}

// limbs (most significant first) of a Work value, written independently
func vhLimbs(w Work) (l [4]uint64) {
	for i := 0; i < 4; i++ {
		for j := 0; j < 8; j++ {
			l[i] = l[i]<<8 | uint64(w.n[8*i+j])
		}
	}
	return
}

// Work.add / sub / Cmp / min / max are exact 256-bit operations that panic
// exactly on overflow / underflow
func VH_C13_WorkAddSubCmp() {
	// split into three harnesses (VH_C13_WorkCmp, VH_C13_WorkAddSub,
	// VH_C13_WorkSubOrder): Cmp forks once per byte, and repeating the 256-bit
	// carry-chain obligations on each of those paths is what made this slow
	VH_C13_WorkCmp()
}

func vhWorkLess(la, lb [4]uint64) (lt, eq bool) {
	lt, eq = false, true
	for i := 0; i < 4; i++ {
		lt = vh.Or(lt, vh.And(eq, la[i] < lb[i]))
		eq = vh.And(eq, la[i] == lb[i])
	}
	return
}

// Cmp is the integer order; min / max follow it
func VH_C13_WorkCmp() {
	a, b := vhWork("a"), vhWork("b")
	lt, eq := vhWorkLess(vhLimbs(a), vhLimbs(b))
	c := a.Cmp(b)
	vh.Assert(vh.And(vh.Implies(lt, c < 0), vh.Implies(eq, c == 0), vh.Implies(vh.And(!lt, !eq), c > 0)), "Work.Cmp is not the integer order")
	mn, mx := a.min(b), a.max(b)
	vh.Assert(vh.And(vh.Implies(lt, vh.And(mn == a, mx == b)), vh.Implies(!lt, vh.And(mn == b, mx == a))), "Work.min/max")
	vh.Reach("end")
}

// add / sub are exact and panic exactly on overflow / underflow
func VH_C13_WorkAddSub() {
	a, b := vhWork("a"), vhWork("b")
	la, lb := vhLimbs(a), vhLimbs(b)
	var sum [4]uint64
	var carry uint64
	for i := 3; i >= 0; i-- {
		sum[i], carry = bits.Add64(la[i], lb[i], carry)
	}
	overflow := carry != 0
	var r Work
	panicked := vh.Panics(func() { r = a.add(b) })
	vh.Assert(panicked == overflow, "Work.add panics iff the sum overflows 256 bits")
	if !panicked {
		vh.Assert(vhLimbs(r) == sum, "Work.add result")
		vh.Reach("added")
	}
	var diff [4]uint64
	var borrow uint64
	for i := 3; i >= 0; i-- {
		diff[i], borrow = bits.Sub64(la[i], lb[i], borrow)
	}
	var d Work
	upanic := vh.Panics(func() { d = a.sub(b) })
	vh.Assert(upanic == (borrow != 0), "Work.sub panics iff a < b")
	if !upanic {
		vh.Assert(vhLimbs(d) == diff, "Work.sub result")
		vh.Reach("subtracted")
	}
	vh.Reach("end")
}

// the borrow out of the 256-bit subtraction is the integer order (ties the
// panic condition of sub to Cmp)
func VH_C13_WorkSubOrder() {
	a, b := vhWork("a"), vhWork("b")
	la, lb := vhLimbs(a), vhLimbs(b)
	lt, _ := vhWorkLess(la, lb)
	var borrow uint64
	for i := 3; i >= 0; i-- {
		_, borrow = bits.Sub64(la[i], lb[i], borrow)
	}
	vh.Assert((borrow != 0) == lt, "Work.sub underflow iff a < b (order)")
	vh.Reach("end")
}

// div64 by the constants the retargeting code uses: q*v + r == w with r < v
func VH_C13_WorkDivConst() {
	w := vhWork("w")
	v := []uint64{5, 200, 250}[vh.Choice("divisor", 3)]
	q := w.div64(v)
	// q*v <= w < q*v + v, checked limb-wise through mul64/add of the real code
	// being avoided: use the defining property via repeated addition of q
	// (v is small only in its role; multiply with the reference multiplier)
	lq := vhLimbs(q)
	var prod [4]uint64
	var c uint64
	for i := 3; i >= 0; i-- {
		hi, lo := bits.Mul64(lq[i], v)
		lo, cc := bits.Add64(lo, c, 0)
		prod[i] = lo
		c = hi + cc
	}
	vh.Assert(c == 0, "q*v overflows")
	// w - q*v
	lw := vhLimbs(w)
	var rem [4]uint64
	var borrow uint64
	for i := 3; i >= 0; i-- {
		rem[i], borrow = bits.Sub64(lw[i], prod[i], borrow)
	}
	vh.Assert(borrow == 0, "q*v > w")
	vh.Assert(vh.And(rem[0] == 0, rem[1] == 0, rem[2] == 0, rem[3] < v), "remainder not below divisor")
	vh.Assert(vh.Panics(func() { w.div64(0) }), "div64 by zero must panic")
	vh.Reach("end")
}

// the per-block clamp of the FinalCut era holds whatever the estimate is, the
// result is never zero, and cumulative work strictly increases
func VH_C13_FinalCutClamp() {
	n, s := vhWorld("w")
	n.BlockInterval = 10 * time.Minute // a concrete interval (the symbolic product interval*height is not linear)
	vh.Assume(s.Index.Height < 1<<32)
	vh.Assume(s.childHeight() >= s.Network.HardforkV2.FinalCutHeight)
	// I6: nonzero difficulty, bounded so that TotalWork + Difficulty fits
	zero := Work{}
	vh.Assume(s.Difficulty != zero)
	vh.Assume(vh.And(s.Difficulty.n[0] == 0, s.TotalWork.n[0] == 0))
	var ts time.Time
	vh.Fill("timestamp", &ts)
	var d Work
	if msg := vh.PanicMsg(func() { d = adjustDifficultyFinalCut(s, ts) }); msg != "" {
		// the only panics retargeting may raise are arithmetic overflows of
		// values beyond the I6 envelope; a division by zero is never acceptable
		vh.Assert(msg != "Work.div64: division by zero", "retargeting divides by zero")
		vh.Assert(msg != "Work.sub: underflow", "retargeting underflows")
		vh.Reach("overflow-path")
		return
	}
	maxAdjust := s.Difficulty.div64(250).max(oneWork)
	vh.Assert(d.Cmp(s.Difficulty.add(maxAdjust)) <= 0, "difficulty increased beyond the 0.4% clamp")
	vh.Assert(d.Cmp(s.Difficulty.sub(maxAdjust)) >= 0, "difficulty decreased beyond the 0.4% clamp")
	vh.Assert(d != zero, "difficulty became zero")
	tw, _ := updateTotalWork(s)
	vh.Assert(tw.Cmp(s.TotalWork) > 0, "cumulative work did not increase")
	vh.Reach("end")
}

func VH_C13_V2Clamp() {
	n, s := vhWorld("w")
	n.BlockInterval = 10 * time.Minute
	vh.Assume(s.Index.Height < 1<<32)
	vh.Assume(vh.And(s.childHeight() >= s.Network.HardforkV2.AllowHeight, s.childHeight() < s.Network.HardforkV2.FinalCutHeight))
	zero := Work{}
	vh.Assume(s.Difficulty != zero)
	vh.Assume(vh.And(s.Difficulty.n[0] == 0, s.TotalWork.n[0] == 0))
	var ts time.Time
	vh.Fill("timestamp", &ts)
	var d Work
	if msg := vh.PanicMsg(func() { d = adjustDifficultyV2(s, ts) }); msg != "" {
		vh.Assert(msg != "Work.div64: division by zero", "retargeting divides by zero")
		vh.Assert(msg != "Work.sub: underflow", "retargeting underflows")
		vh.Reach("overflow-path")
		return
	}
	maxAdjust := s.Difficulty.div64(250)
	vh.Assert(d.Cmp(s.Difficulty.add(maxAdjust)) <= 0, "difficulty increased beyond the 0.4% clamp")
	vh.Assert(d.Cmp(s.Difficulty.sub(maxAdjust)) >= 0, "difficulty decreased beyond the 0.4% clamp")
	vh.Reach("end")
}

// applying only the header gives exactly the proof-of-work state of applying
// the full block (v2 eras)
func VH_C13_HeaderVsBlock() {
	n, s := vhWorld("w")
	n.BlockInterval = 10 * time.Minute
	vh.Assume(s.Index.Height < 1<<32)
	vh.Assume(s.childHeight() >= s.Network.HardforkV2.AllowHeight)
	vh.Assume(s.childHeight() >= s.Network.HardforkV2.RequireHeight)
	zero := Work{}
	vh.Assume(s.Difficulty != zero)
	var b types.Block
	b.MinerPayouts = make([]types.SiacoinOutput, 1)
	b.V2 = &types.V2BlockData{}
	vh.Fill("b", &b)
	b.ParentID = s.Index.ID
	b.V2.Height = s.childHeight()
	var tt time.Time
	vh.Fill("target", &tt)
	var s1, s2 State
	if vh.Panics(func() { s1, _ = ApplyBlock(s, b, V1BlockSupplement{}, tt) }) {
		vh.Reach("panic-path")
		return
	}
	s2 = ApplyHeader(s, b.Header(), tt)
	same := vh.And(s1.Index == s2.Index, vh.Eq(s1.PrevTimestamps, s2.PrevTimestamps), s1.Depth == s2.Depth, s1.ChildTarget == s2.ChildTarget,
		s1.OakTime == s2.OakTime, s1.OakTarget == s2.OakTarget, s1.TotalWork == s2.TotalWork, s1.Difficulty == s2.Difficulty, s1.OakWork == s2.OakWork)
	vh.Assert(same, "ApplyHeader and ApplyBlock disagree on the proof-of-work state")
	vh.Reach("end")
}

// header validation: accepted iff parent ID, timestamp >= median, admissible
// nonce and sufficient work
func VH_C13_ValidateHeader() {
	n := vhNetwork("net")
	s := vhState("s", n)
	vh.Assume(vh.And(s.Index.Height >= 11, s.Index.Height < 1<<62))
	// k distinct timestamps among the 11 (the rest repeat the last one)
	k := vh.Param("ntimestamps", 3)
	for i := k; i < 11; i++ {
		s.PrevTimestamps[i] = s.PrevTimestamps[k-1]
	}
	var bh types.BlockHeader
	vh.Fill("bh", &bh)
	era := vh.Choice("era", 2) // 0: before FinalCut (ChildTarget), 1: FinalCut (difficulty inverse)
	if era == 0 {
		vh.Assume(s.childHeight() < s.Network.HardforkV2.FinalCutHeight)
	} else {
		vh.Assume(s.childHeight() >= s.Network.HardforkV2.FinalCutHeight)
	}
	err := ValidateHeader(s, bh)
	// independent median: the 6th smallest of the 11 values = there are at
	// least 6 values <= m and at least 6 values >= m, m one of them
	med := s.medianTimestamp()
	le, ge := 0, 0
	isMember := false
	for i := 0; i < 11; i++ {
		t := s.PrevTimestamps[i]
		if !t.After(med) {
			le++
		}
		if !t.Before(med) {
			ge++
		}
		if t.Equal(med) {
			isMember = true
		}
	}
	vh.Assert(vh.And(le >= 6, ge >= 6, isMember), "medianTimestamp is not the median of the previous 11 timestamps")
	factor := uint64(1)
	if s.childHeight() >= s.Network.HardforkASIC.Height {
		factor = s.Network.HardforkASIC.NonceFactor
	}
	if factor == 0 {
		vh.Reach("zero-factor")
		return
	}
	id := bh.ID()
	target := s.PoWTarget()
	meets := true
	{
		// id <= target as big-endian integers
		lt, eq := false, true
		for i := 0; i < 32; i++ {
			lt = vh.Or(lt, vh.And(eq, id[i] < target[i]))
			eq = vh.And(eq, id[i] == target[i])
		}
		meets = vh.Or(lt, eq)
	}
	want := vh.And(bh.ParentID == s.Index.ID, !bh.Timestamp.Before(med), bh.Nonce%factor == 0, meets)
	vh.Assert((err == nil) == want, "ValidateHeader disagrees with the header rules")
	if err == nil {
		vh.Reach("accepted")
	}
}

// 'sufficiently heavier' is asymmetric
func VH_C13_HeavierAsymmetric() {
	n := vhNetwork("net")
	a := vhState("a", n)
	b := vhState("b", n)
	var ab, ba bool
	if vh.Panics(func() { ab = a.SufficientlyHeavierThan(b) }) {
		return
	}
	if vh.Panics(func() { ba = b.SufficientlyHeavierThan(a) }) {
		return
	}
	vh.Assert(!(ab && ba), "two states are each sufficiently heavier than the other")
	vh.Reach("end")
}

// FinalCut / v2 retargeting from a concrete proof-of-work state (difficulty
// 2^40, Oak work 2^50) with symbolic Oak time, block timestamp and height:
// never divides by zero, never underflows, result within the clamp, never zero
func VH_C13_RetargetTotal() {
	n := vhNetwork("net")
	n.BlockInterval = 10 * time.Minute
	s := vhState("s", n)
	s.Difficulty, s.OakWork, s.TotalWork = Work{}, Work{}, Work{}
	s.Difficulty.n[26] = 1 // 2^40
	s.OakWork.n[25] = 4    // 2^50
	s.TotalWork.n[20] = 1
	vh.Assume(vh.And(s.Index.Height >= 11, s.Index.Height < 1<<32))
	vh.Assume(vh.And(s.OakTime > -(1<<50), s.OakTime < 1<<50))
	var ts time.Time
	vh.Fill("timestamp", &ts)
	era := vh.Choice("era", 2)
	var d Work
	msg := ""
	if era == 0 {
		msg = vh.PanicMsg(func() { d = adjustDifficultyFinalCut(s, ts) })
	} else {
		msg = vh.PanicMsg(func() { d = adjustDifficultyV2(s, ts) })
	}
	if msg != "" {
		vh.Assert(msg != "Work.div64: division by zero", "retargeting divides by zero")
		vh.Assert(msg != "Work.sub: underflow", "retargeting underflows")
		vh.Reach("overflow-path")
		return
	}
	maxAdjust := s.Difficulty.div64(250)
	if era == 0 {
		maxAdjust = maxAdjust.max(oneWork)
	}
	vh.Assert(d.Cmp(s.Difficulty.add(maxAdjust)) <= 0, "difficulty increased beyond the 0.4% clamp")
	vh.Assert(d.Cmp(s.Difficulty.sub(maxAdjust)) >= 0, "difficulty decreased beyond the 0.4% clamp")
	vh.Assert(d != (Work{}), "difficulty became zero")
	vh.Reach("end")
}

// FinalCut / v2 retargeting never divides by zero and never underflows, for
// every Oak time (the only symbolic input here; proof-of-work state, block
// timestamp and height are concrete, so the 256-bit products stay linear)
func VH_C13_RetargetNoDivZero() {
	n := vhNetwork("net")
	n.BlockInterval = 10 * time.Minute
	n.HardforkOak.GenesisTimestamp = time.Unix(1433600000, 0)
	var s State
	s.Network = n
	s.Index.Height = 600000
	s.Difficulty.n[26] = 1 // 2^40
	s.OakWork.n[25] = 4    // 2^50
	s.TotalWork.n[20] = 1
	s.OakTime = time.Duration(vh.I64("oaktime"))
	vh.Assume(vh.And(s.OakTime > -(1<<50), s.OakTime < 1<<50))
	drift := []int64{-100000, -600, 0, 600, 100000}[vh.Choice("drift", 5)]
	ts := time.Unix(1433600000+600*600001+drift, 0)
	era := vh.Choice("era", 2)
	var d Work
	msg := ""
	if era == 0 {
		msg = vh.PanicMsg(func() { d = adjustDifficultyFinalCut(*(&s), ts) })
	} else {
		msg = vh.PanicMsg(func() { d = adjustDifficultyV2(*(&s), ts) })
	}
	vh.Assert(msg != "Work.div64: division by zero", "retargeting divides by zero")
	vh.Assert(msg != "Work.sub: underflow", "retargeting underflows")
	if msg == "" {
		vh.Assert(d != (Work{}), "difficulty became zero")
		maxAdjust := s.Difficulty.div64(250)
		if era == 0 {
			maxAdjust = maxAdjust.max(oneWork)
		}
		vh.Assert(vh.And(d.Cmp(s.Difficulty.add(maxAdjust)) <= 0, d.Cmp(s.Difficulty.sub(maxAdjust)) >= 0), "difficulty left the 0.4% clamp")
		vh.Reach("end")
	}
}
