package types

import (
	"math/bits"

	"go.sia.tech/core/internal/vh"
)

func vhCur(name string) Currency {
	return NewCurrency(vh.U64(name+".lo"), vh.U64(name+".hi"))
}

// add: result equals the 129-bit sum, flag iff carry out of bit 127
func VH_C15_Add() {
	c, v := vhCur("c"), vhCur("v")
	s, ovf := c.AddWithOverflow(v)
	// reference: limb-wise with explicit carries written independently
	lo := c.Lo + v.Lo
	var carry uint64
	if lo < c.Lo {
		carry = 1
	}
	hi := c.Hi + v.Hi
	over := hi < c.Hi
	hi2 := hi + carry
	if hi2 < hi {
		over = true
	}
	vh.Assert(s.Lo == lo, "add lo")
	vh.Assert(s.Hi == hi2, "add hi")
	vh.Assert(ovf == over, "add overflow flag")
	vh.Assert(vh.Panics(func() { c.Add(v) }) == ovf, "Add panics iff overflow")
}

func VH_C15_Sub() {
	c, v := vhCur("c"), vhCur("v")
	d, under := c.SubWithUnderflow(v)
	vh.Assert(under == (c.Cmp(v) < 0), "underflow iff c < v")
	back, ovf := d.AddWithOverflow(v)
	vh.Assert(vh.Implies(!under, vh.And(!ovf, back == c)), "(c-v)+v == c")
	vh.Assert(vh.Panics(func() { c.Sub(v) }) == under, "Sub panics iff underflow")
}

func VH_C15_Cmp() {
	c, v := vhCur("c"), vhCur("v")
	r := c.Cmp(v)
	lt := vh.Or(c.Hi < v.Hi, vh.And(c.Hi == v.Hi, c.Lo < v.Lo))
	eq := vh.And(c.Hi == v.Hi, c.Lo == v.Lo)
	vh.Assert(vh.Implies(lt, r == -1), "cmp lt")
	vh.Assert(vh.Implies(eq, r == 0), "cmp eq")
	vh.Assert(vh.Implies(vh.And(!lt, !eq), r == 1), "cmp gt")
	vh.Assert(c.Equals(v) == eq, "Equals")
	vh.Assert(c.IsZero() == vh.And(c.Lo == 0, c.Hi == 0), "IsZero")
}

// Mul64: c*v with v 64-bit; product = (c.Hi*v)<<64 + c.Lo*v, overflow iff >= 2^128
func VH_C15_Mul64() {
	c := vhCur("c")
	v := vh.U64("v")
	p, ovf := c.Mul64WithOverflow(v)
	h0, l0 := bits.Mul64(c.Lo, v)
	h1, l1 := bits.Mul64(c.Hi, v)
	mid, carry := bits.Add64(h0, l1, 0)
	want := vh.Or(h1 != 0, carry != 0)
	vh.Assert(ovf == want, "mul64 overflow flag")
	vh.Assert(vh.Implies(!ovf, vh.And(p.Lo == l0, p.Hi == mid)), "mul64 product")
	vh.Assert(vh.Panics(func() { c.Mul64(v) }) == ovf, "Mul64 panics iff overflow")
}
