package types

import (
	"bytes"

	"go.sia.tech/core/internal/vh"
)

// Decoding a multiproof block body is total: the wire form of 1..2 v2
// transactions (each with one siacoin input and, optionally, one contract
// revision; element leaf indices arbitrary 64-bit values) followed by an
// arbitrary leaf count and up to K arbitrary proof hashes never panics, and when
// it is accepted every parent has a proof of the length its index and the leaf
// count imply.
func VH_C10_MultiproofDecode() {
	vh.NoPanic()
	n := 1 + vh.Choice("txns", vh.Param("maxtxns", 2))
	txns := make([]V2Transaction, n)
	for i := range txns {
		txns[i].SiacoinInputs = make([]V2SiacoinInput, 1)
		if vh.Choice("rev", 2) == 1 {
			txns[i].FileContractRevisions = make([]V2FileContractRevision, 1)
		}
	}
	vh.Fill("txns", &txns)
	for i := range txns {
		txns[i].SiacoinInputs[0].SatisfiedPolicy = SatisfiedPolicy{Policy: PolicyAbove(0)}
		txns[i].SiacoinInputs[0].Parent.StateElement.MerkleProof = nil
		for j := range txns[i].FileContractRevisions {
			txns[i].FileContractRevisions[j].Parent.StateElement.MerkleProof = nil
		}
	}
	var buf bytes.Buffer
	e := NewEncoder(&buf)
	EncodeSlice(e, txns)
	numLeaves := vh.U64("numLeaves")
	vh.Assume(numLeaves < uint64(vh.Param("maxleaves", 16)))
	e.WriteUint64(numLeaves)
	k := vh.Choice("hashes", vh.Param("maxhashes", 6))
	e.Write(vh.Bytes("proof", 32*k))
	e.Flush()
	var out V2TransactionsMultiproof
	d := NewBufDecoder(buf.Bytes())
	out.DecodeFrom(d)
	if d.Err() != nil {
		vh.Reach("rejected")
		return
	}
	vh.Assert(len(out) == n, "decoded a different number of transactions")
	for i := range out {
		se := out[i].SiacoinInputs[0].Parent.StateElement
		vh.Assert(vh.Or(se.LeafIndex == UnassignedLeafIndex, se.LeafIndex < numLeaves), "accepted a leaf index outside the accumulator")
	}
	vh.Reach("accepted")
}
