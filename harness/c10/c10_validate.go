package consensus

import (
	"go.sia.tech/core/types"
	"go.sia.tech/core/internal/vh"
)

// v1: validation of an arbitrary transaction of the shape never panics, and an
// accepted transaction can be applied without panic.
func VH_C10_ValidateV1() {
	vh.NoPanic()
	_, s := vhWorld("w")
	mask := vh.Param("mask", 0x3ff)
	txn, ts := vhV1Txn("t", mask, vh.Param("n", 1))
	// covered fields: symbolic indices in the lists selected by cfmask
	vhGenuineV1(s, ts)
	ms := NewMidState(s)
	err := ValidateTransaction(ms, txn, ts)
	if err != nil {
		vh.Reach("rejected")
		if vh.Param("debug", 0) == 1 {
			vh.Reach("rejected: " + err.Error())
		}
		return
	}
	vh.Reach("accepted")
	ms.ApplyTransaction(txn, ts)
	vh.Reach("applied")
}

// v2: validation never panics; an accepted transaction can be applied.
func VH_C10_ValidateV2() {
	vh.NoPanic()
	_, s := vhWorld("w")
	mask := vh.Param("mask", 0x3ff)
	rk := 2
	if mask&(1<<6) != 0 {
		rk = vh.Choice("resolution.kind", 3)
	}
	pk := 0
	if mask&5 != 0 {
		pk = vh.Choice("policy.kind", 3)
	}
	eph := vh.Param("eph", 0) == 1
	txn := vhV2Txn("t", mask, vh.Param("n", 1), rk, pk, eph)
	vhGenuineV2(s, &txn)
	if vh.Param("above_eph_height", 1) == 1 {
		vh.Assume(s.childHeight() >= s.Network.HardforkV2.EphemeralOutputHeight)
	}
	ms := NewMidState(s)
	err := ValidateV2Transaction(ms, txn)
	if err != nil {
		vh.Reach("rejected")
		if vh.Param("debug", 0) == 1 {
			vh.Reach("rejected: " + err.Error())
		}
		return
	}
	vh.Reach("accepted")
	ms.ApplyV2Transaction(txn)
	vh.Reach("applied")
}

// v2, two transactions of one block: the first creates elements of some kind,
// the second spends an ephemeral (unassigned leaf index) siacoin or siafund
// parent with an arbitrary ID, in particular the ID of anything the first one
// created (attestation, contract, output of the other currency). Validation
// and application never panic; from the ephemeral-output height on, an accepted
// ephemeral siacoin parent is exactly an output created earlier in the block.
func VH_C10_V2BlockEphemeral() {
	vh.NoPanic()
	_, s := vhWorld("w")
	vh.Assume(s.childHeight() >= s.Network.HardforkV2.AllowHeight)
	above := vh.Choice("era", 2) == 1
	if above {
		vh.Assume(s.childHeight() >= s.Network.HardforkV2.EphemeralOutputHeight)
	} else {
		vh.Assume(s.childHeight() < s.Network.HardforkV2.EphemeralOutputHeight)
	}
	masks := []int{1 << 7, 3, 12, 1 | 1<<4}
	full := vh.Param("ephfull", 0) == 1
	if !full {
		masks = masks[:2]
	}
	t1 := vhV2Txn("t1", masks[vh.Choice("first", len(masks))], 1, 2, 0, false)
	vhGenuineV2(s, &t1)
	ms := NewMidState(s)
	if ValidateV2Transaction(ms, t1) != nil {
		return
	}
	ms.ApplyV2Transaction(t1)
	vh.Reach("first-applied")
	kind := 0
	if full {
		kind = vh.Choice("second", 2)
	}
	t2 := vhV2Txn("t2", []int{3, 12}[kind], 1, 2, 0, true)
	if kind == 1 {
		vh.Assume(t2.SiafundInputs[0].Parent.SiafundOutput.Value <= 10000)
	}
	err := ValidateV2Transaction(ms, t2)
	if err != nil {
		vh.Reach("second-rejected")
		return
	}
	vh.Reach("second-accepted")
	if above && kind == 0 {
		p := t2.SiacoinInputs[0].Parent
		found := false
		for _, d := range ms.sces {
			if vh.And(d.Created, d.SiacoinElement.ID == p.ID, d.SiacoinElement.SiacoinOutput == p.SiacoinOutput, d.SiacoinElement.MaturityHeight == p.MaturityHeight) {
				found = true
			}
		}
		vh.Assert(found, "ephemeral siacoin parent accepted that is not an output created earlier in the block")
	}
	vh.Assert(vh.Implies(above, kind == 0), "ephemeral siafund parent accepted at or after the ephemeral-output height")
	ms.ApplyV2Transaction(t2)
	vh.Reach("second-applied")
}

// the covered-field range check compares every index list with the length of
// ITS OWN field (lists of pairwise different lengths make a mix-up visible)
func VH_C10_CoveredFieldsInRange() {
	vh.NoPanic()
	var t types.Transaction
	t.SiacoinInputs = make([]types.SiacoinInput, 1)
	t.SiacoinOutputs = make([]types.SiacoinOutput, 2)
	t.FileContracts = make([]types.FileContract, 3)
	t.FileContractRevisions = make([]types.FileContractRevision, 4)
	t.StorageProofs = make([]types.StorageProof, 5)
	t.SiafundInputs = make([]types.SiafundInput, 6)
	t.SiafundOutputs = make([]types.SiafundOutput, 7)
	t.MinerFees = make([]types.Currency, 8)
	t.ArbitraryData = make([][]byte, 9)
	t.Signatures = make([]types.TransactionSignature, 10)
	var cf types.CoveredFields
	for _, l := range []*[]uint64{&cf.SiacoinInputs, &cf.SiacoinOutputs, &cf.FileContracts, &cf.FileContractRevisions, &cf.StorageProofs,
		&cf.SiafundInputs, &cf.SiafundOutputs, &cf.MinerFees, &cf.ArbitraryData, &cf.Signatures} {
		*l = make([]uint64, 1)
	}
	vh.Fill("cf", &cf)
	cf.WholeTransaction = vh.Choice("whole", 2) == 1
	got := coveredFieldsInRange(t, cf)
	want := cf.Signatures[0] < 10
	if !cf.WholeTransaction {
		want = vh.And(want, cf.SiacoinInputs[0] < 1, cf.SiacoinOutputs[0] < 2, cf.FileContracts[0] < 3, cf.FileContractRevisions[0] < 4, cf.StorageProofs[0] < 5,
			cf.SiafundInputs[0] < 6, cf.SiafundOutputs[0] < 7, cf.MinerFees[0] < 8, cf.ArbitraryData[0] < 9)
	}
	vh.Assert(got == want, "coveredFieldsInRange does not compare each index list with the length of its own field")
	if got {
		vh.Reach("in-range")
	} else {
		vh.Reach("out-of-range")
	}
}
