package consensus

import (
	"go.sia.tech/core/internal/vh"
)

// v1: validation of an arbitrary transaction of the shape never panics, and an
// accepted transaction can be applied without panic.
func VH_C10_ValidateV1() {
	vh.NoPanic()
	_, s := vhWorld("w")
	mask := vh.Param("mask", 0x3ff)
	txn, ts := vhV1Txn("t", mask, vh.Param("n", 1))
	// covered fields: symbolic indices in the lists selected by cfmask
	vhGenuineV1(s, ts)
	ms := NewMidState(s)
	err := ValidateTransaction(ms, txn, ts)
	if err != nil {
		vh.Reach("rejected")
		if vh.Param("debug", 0) == 1 {
			vh.Reach("rejected: " + err.Error())
		}
		return
	}
	vh.Reach("accepted")
	ms.ApplyTransaction(txn, ts)
	vh.Reach("applied")
}

// v2: validation never panics; an accepted transaction can be applied.
func VH_C10_ValidateV2() {
	vh.NoPanic()
	_, s := vhWorld("w")
	mask := vh.Param("mask", 0x3ff)
	rk := 2
	if mask&(1<<6) != 0 {
		rk = vh.Choice("resolution.kind", 3)
	}
	pk := 0
	if mask&5 != 0 {
		pk = vh.Choice("policy.kind", 3)
	}
	eph := vh.Param("eph", 0) == 1
	txn := vhV2Txn("t", mask, vh.Param("n", 1), rk, pk, eph)
	vhGenuineV2(s, &txn)
	if vh.Param("above_eph_height", 1) == 1 {
		vh.Assume(s.childHeight() >= s.Network.HardforkV2.EphemeralOutputHeight)
	}
	ms := NewMidState(s)
	err := ValidateV2Transaction(ms, txn)
	if err != nil {
		vh.Reach("rejected")
		if vh.Param("debug", 0) == 1 {
			vh.Reach("rejected: " + err.Error())
		}
		return
	}
	vh.Reach("accepted")
	ms.ApplyV2Transaction(txn)
	vh.Reach("applied")
}
