package consensus

import (
	"time"

	"go.sia.tech/core/internal/vh"
	"go.sia.tech/core/types"
)

// Reverting a block that revises a v2 contract: the diffs name the contract
// with its pre-block content, and a client holding any other element of the
// same tree (with its post-block proof) ends with a proof that verifies
// against the parent state.
func VH_C06_RevertV2Revision() {
	n := vhNetwork("net")
	n.BlockInterval = 10 * time.Minute
	s := vhState("s", n)
	s.Index.Height = 50
	s.FoundationSubsidyAddress = types.VoidAddress
	vh.Assume(vh.And(n.HardforkV2.AllowHeight <= 40, n.HardforkV2.RequireHeight <= 45))
	vh.Assume(s.SiafundTaxRevenue.Hi < 1<<56)
	// parent accumulator: 4 genuine leaves (siacoin, siafund, v2 contract, chain index)
	gs := make([]vhGenuine, 4)
	for i := range gs {
		gs[i].kind = i
		nm := "g" + string(rune('0'+i))
		switch i {
		case 0:
			vh.Fill(nm, &gs[i].sce)
		case 1:
			vh.Fill(nm, &gs[i].sfe)
		case 2:
			vh.Fill(nm, &gs[i].fce)
		case 3:
			vh.Fill(nm, &gs[i].cie)
		}
	}
	// elements from earlier blocks: their IDs are ideal-hash outputs
	gs[0].sce.ID = vh.GenuineID("g0.sc0")
	gs[1].sfe.ID = vh.GenuineID("g1.sf0")
	gs[2].fce.ID = vh.GenuineID("g2.fc0")
	gs[3].cie.ID = vh.GenuineID("g3.cie0")
	f0 := vhNaiveForestOf(gs)
	s.Elements = ElementAccumulator{NumLeaves: 4, Trees: f0.trees}
	parent := gs[2].fce
	parent.StateElement = types.StateElement{LeafIndex: 2, MerkleProof: append([]types.Hash256(nil), f0.proofs[2]...)}
	var b types.Block
	b.MinerPayouts = make([]types.SiacoinOutput, 1)
	b.V2 = &types.V2BlockData{Transactions: make([]types.V2Transaction, 1)}
	b.V2.Transactions[0].FileContractRevisions = make([]types.V2FileContractRevision, 1)
	vh.Fill("b", &b)
	b.ParentID = s.Index.ID
	b.V2.Height = 51
	b.V2.Transactions[0].FileContractRevisions[0].Parent = parent
	rev := b.V2.Transactions[0].FileContractRevisions[0].Revision

	// the tree of the 4 old leaves after the block: leaf 2 now holds the revision
	post := gs[2]
	post.fce.V2FileContract = rev
	lh := []types.Hash256{gs[0].leafHash(0), gs[1].leafHash(1), post.leafHash(2), gs[3].leafHash(3)}
	f1 := vhNaiveForest(lh)

	ru := RevertBlock(s, b, V1BlockSupplement{})
	// diffs: exactly this contract, pre-block content, revision reported
	ds := ru.V2FileContractElementDiffs()
	vh.Assert(len(ds) == 1, "revert update does not report exactly the revised contract")
	if len(ds) == 1 {
		vh.Assert(vh.And(ds[0].V2FileContractElement.ID == parent.ID, vh.Eq(ds[0].V2FileContractElement.V2FileContract, parent.V2FileContract), ds[0].Revision != nil, !ds[0].Created, ds[0].Resolution == nil), "revert diff does not carry the contract's pre-block content")
	}
	// clients tracking the other three elements
	for _, i := range []int{0, 1, 3} {
		se := types.StateElement{LeafIndex: uint64(i), MerkleProof: append([]types.Hash256(nil), f1.proofs[i]...)}
		ru.UpdateElementProof(&se)
		vh.Assert(vhProofEq(se.MerkleProof, f0.proofs[i]), "after the revert a tracked element's proof does not verify against the parent state")
	}
	// the contract itself, as reported by the revert update, verifies as unresolved in the parent state
	if len(ds) == 1 {
		vh.Assert(s.Elements.containsUnresolvedV2FileContractElement(ds[0].V2FileContractElement.Copy()), "reverted contract does not verify against the parent state")
	}
	vh.Reach("end")
}
