package consensus

import (
	"time"

	"go.sia.tech/core/internal/vh"
	"go.sia.tech/core/types"
)

// Reverting a block that revises a v2 contract: the diffs name the contract
// with its pre-block content, and a client holding any other element of the
// same tree (with its post-block proof) ends with a proof that verifies
// against the parent state.
func VH_C06_RevertV2Revision() {
	n := vhNetwork("net")
	n.BlockInterval = 10 * time.Minute
	s := vhState("s", n)
	s.Index.Height = 50
	s.FoundationSubsidyAddress = types.VoidAddress
	vh.Assume(vh.And(n.HardforkV2.AllowHeight <= 40, n.HardforkV2.RequireHeight <= 45))
	vh.Assume(s.SiafundTaxRevenue.Hi < 1<<56)
	// parent accumulator: 4 genuine leaves (siacoin, siafund, v2 contract, chain index)
	gs := make([]vhGenuine, 4)
	for i := range gs {
		gs[i].kind = i
		nm := "g" + string(rune('0'+i))
		switch i {
		case 0:
			vh.Fill(nm, &gs[i].sce)
		case 1:
			vh.Fill(nm, &gs[i].sfe)
		case 2:
			vh.Fill(nm, &gs[i].fce)
		case 3:
			vh.Fill(nm, &gs[i].cie)
		}
	}
	// elements from earlier blocks: their IDs are ideal-hash outputs
	gs[0].sce.ID = vh.GenuineID("g0.sc0")
	gs[1].sfe.ID = vh.GenuineID("g1.sf0")
	gs[2].fce.ID = vh.GenuineID("g2.fc0")
	gs[3].cie.ID = vh.GenuineID("g3.cie0")
	f0 := vhNaiveForestOf(gs)
	s.Elements = ElementAccumulator{NumLeaves: 4, Trees: f0.trees}
	parent := gs[2].fce
	parent.StateElement = types.StateElement{LeafIndex: 2, MerkleProof: append([]types.Hash256(nil), f0.proofs[2]...)}
	var b types.Block
	b.MinerPayouts = make([]types.SiacoinOutput, 1)
	b.V2 = &types.V2BlockData{Transactions: make([]types.V2Transaction, 1)}
	b.V2.Transactions[0].FileContractRevisions = make([]types.V2FileContractRevision, 1)
	vh.Fill("b", &b)
	b.ParentID = s.Index.ID
	b.V2.Height = 51
	b.V2.Transactions[0].FileContractRevisions[0].Parent = parent
	rev := b.V2.Transactions[0].FileContractRevisions[0].Revision

	// the tree of the 4 old leaves after the block: leaf 2 now holds the revision
	post := gs[2]
	post.fce.V2FileContract = rev
	lh := []types.Hash256{gs[0].leafHash(0), gs[1].leafHash(1), post.leafHash(2), gs[3].leafHash(3)}
	f1 := vhNaiveForest(lh)

	ru := RevertBlock(s, b, V1BlockSupplement{})
	// diffs: exactly this contract, pre-block content, revision reported
	ds := ru.V2FileContractElementDiffs()
	vh.Assert(len(ds) == 1, "revert update does not report exactly the revised contract")
	if len(ds) == 1 {
		vh.Assert(vh.And(ds[0].V2FileContractElement.ID == parent.ID, vh.Eq(ds[0].V2FileContractElement.V2FileContract, parent.V2FileContract), ds[0].Revision != nil, !ds[0].Created, ds[0].Resolution == nil), "revert diff does not carry the contract's pre-block content")
	}
	// clients tracking the other three elements
	for _, i := range []int{0, 1, 3} {
		se := types.StateElement{LeafIndex: uint64(i), MerkleProof: append([]types.Hash256(nil), f1.proofs[i]...)}
		ru.UpdateElementProof(&se)
		vh.Assert(vhProofEq(se.MerkleProof, f0.proofs[i]), "after the revert a tracked element's proof does not verify against the parent state")
	}
	// the contract itself, as reported by the revert update, verifies as unresolved in the parent state
	if len(ds) == 1 {
		vh.Assert(s.Elements.containsUnresolvedV2FileContractElement(ds[0].V2FileContractElement.Copy()), "reverted contract does not verify against the parent state")
	}
	vh.Reach("end")
}

func vhConcretePoW(n *Network, s *State) {
	n.BlockInterval = 10 * time.Minute
	n.HardforkDevAddr.Height, n.HardforkTax.Height, n.HardforkStorageProof.Height = 1, 2, 3
	n.HardforkOak.Height, n.HardforkOak.FixHeight, n.HardforkASIC.Height, n.HardforkFoundation.Height = 4, 5, 6, 7
	n.HardforkOak.GenesisTimestamp = time.Unix(1000, 0)
	n.HardforkASIC.OakTime, n.HardforkASIC.OakTarget = 10000*time.Second, types.BlockID{4: 1}
	n.HardforkV2.AllowHeight, n.HardforkV2.RequireHeight, n.HardforkV2.FinalCutHeight = 40, 45, 48
	s.Index.Height = 50
	s.Difficulty, s.TotalWork, s.OakWork = Work{}, Work{}, Work{}
	s.Difficulty.n[26], s.OakWork.n[25], s.TotalWork.n[20] = 1, 4, 1
	s.OakTime = 30000 * time.Second
	s.Depth, s.ChildTarget, s.OakTarget = types.BlockID{}, types.BlockID{}, types.BlockID{}
	for i := range s.PrevTimestamps {
		s.PrevTimestamps[i] = time.Unix(int64(40000-600*i), 0)
	}
}

// One v2 block that spends a siacoin and a siafund element and creates one
// output of each kind (plus the claim and the miner payout), applied with the
// real ApplyBlock and reverted with the real RevertBlock:
//   - RevertBlock reports exactly the diffs ApplyBlock reported, reversed;
//   - after the apply every reported element (created: unspent, parents: spent)
//     and both bystanders verify against the child state;
//   - after the revert the spent parents verify as unspent and the bystanders'
//     proofs are back to the parent state's;
//   - applying again gives the same state and diffs.
// Proof-of-work fields are concrete (not the subject; C13).
func VH_C06_BlockRoundTrip() {
	n := vhNetwork("net")
	s := vhState("s", n)
	vhConcretePoW(n, &s)
	s.FoundationSubsidyAddress = types.VoidAddress
	vh.Assume(s.SiafundTaxRevenue.Hi < 1<<56)
	vh.Assume(s.Index.ID != types.BlockID{}) // the tip's ID is a hash; the zero parent ID means 'genesis' to ApplyHeader
	gs := make([]vhGenuine, 4)
	for i := range gs {
		gs[i].kind = i
	}
	vh.Fill("g0", &gs[0].sce)
	vh.Fill("g1", &gs[1].sfe)
	vh.Fill("g2", &gs[2].fce)
	vh.Fill("g3", &gs[3].cie)
	gs[0].sce.ID = vh.GenuineID("g0.sc0")
	gs[1].sfe.ID = vh.GenuineID("g1.sf0")
	gs[2].fce.ID = vh.GenuineID("g2.fc0")
	gs[3].cie.ID = vh.GenuineID("g3.cie0")
	vh.Assume(vh.And(gs[0].sce.SiacoinOutput.Value.Hi < 1<<56, gs[1].sfe.SiafundOutput.Value <= 10000, gs[1].sfe.ClaimStart.Cmp(s.SiafundTaxRevenue) <= 0))
	f0 := vhNaiveForestOf(gs)
	s.Elements = ElementAccumulator{NumLeaves: 4, Trees: f0.trees}
	proofOf := func(i int) types.StateElement {
		return types.StateElement{LeafIndex: uint64(i), MerkleProof: append([]types.Hash256(nil), f0.proofs[i]...)}
	}
	var b types.Block
	b.MinerPayouts = make([]types.SiacoinOutput, 1)
	b.V2 = &types.V2BlockData{Transactions: make([]types.V2Transaction, 1)}
	t := &b.V2.Transactions[0]
	t.SiacoinInputs = make([]types.V2SiacoinInput, 1)
	t.SiafundInputs = make([]types.V2SiafundInput, 1)
	t.SiacoinOutputs = make([]types.SiacoinOutput, 1)
	t.SiafundOutputs = make([]types.SiafundOutput, 1)
	vh.Fill("b", &b)
	b.ParentID = s.Index.ID
	b.Timestamp = time.Unix(40600, 0)
	b.V2.Height = 51
	t.SiacoinInputs[0].Parent = gs[0].sce
	t.SiacoinInputs[0].Parent.StateElement = proofOf(0)
	t.SiacoinInputs[0].SatisfiedPolicy = types.SatisfiedPolicy{Policy: types.PolicyAbove(0)}
	t.SiafundInputs[0].Parent = gs[1].sfe
	t.SiafundInputs[0].Parent.StateElement = proofOf(1)
	t.SiafundInputs[0].SatisfiedPolicy = types.SatisfiedPolicy{Policy: types.PolicyAbove(0)}

	vh.MarkCaller(&b)
	vh.MarkCaller(&s)
	vh.TrackWrites(true)
	s2, au := ApplyBlock(s, b, V1BlockSupplement{}, time.Unix(40600, 0))
	ru := RevertBlock(s, b, V1BlockSupplement{})
	vh.TrackWrites(false)
	vh.Assert(vh.WriteEvents() == 0, "ApplyBlock / RevertBlock wrote to the block, the parent state or package-level memory")

	// same diffs, reversed
	as, rs := au.SiacoinElementDiffs(), ru.SiacoinElementDiffs()
	vh.Assert(vh.And(len(as) == len(rs), len(as) == 4), "siacoin diffs: parent, output, claim, miner payout expected")
	for i := range as {
		a, r := as[i], rs[len(rs)-1-i]
		vh.Assert(vh.And(a.SiacoinElement.ID == r.SiacoinElement.ID, a.SiacoinElement.SiacoinOutput == r.SiacoinElement.SiacoinOutput,
			a.SiacoinElement.MaturityHeight == r.SiacoinElement.MaturityHeight, a.Created == r.Created, a.Spent == r.Spent), "revert reports a different siacoin diff than apply")
	}
	af, rf := au.SiafundElementDiffs(), ru.SiafundElementDiffs()
	vh.Assert(vh.And(len(af) == len(rf), len(af) == 2), "siafund diffs: parent and output expected")
	for i := range af {
		a, r := af[i], rf[len(rf)-1-i]
		vh.Assert(vh.And(a.SiafundElement.ID == r.SiafundElement.ID, a.SiafundElement.SiafundOutput == r.SiafundElement.SiafundOutput,
			a.SiafundElement.ClaimStart == r.SiafundElement.ClaimStart, a.Created == r.Created, a.Spent == r.Spent), "revert reports a different siafund diff than apply")
	}
	vh.Assert(au.ChainIndexElement().ID == ru.ChainIndexElement().ID, "chain index element ID differs between apply and revert")
	vh.Assert(au.ChainIndexElement().ChainIndex == ru.ChainIndexElement().ChainIndex, "chain index differs between apply and revert")
	vh.Assert(au.ChainIndexElement().ChainIndex.Height == s2.Index.Height, "chain index element height is not the child state's height")
	vh.Assert(au.ChainIndexElement().ChainIndex.ID == s2.Index.ID, "chain index element ID is not the child state's ID")
	vh.Assert(b.ID() == s2.Index.ID, "child state's ID is not the block ID")
	vh.Assert(b.Header().ID() == s2.Index.ID, "child state's ID is not the header ID")

	// after the apply
	vh.Assert(s2.Elements.NumLeaves == 4+3+1+1, "child accumulator does not hold the 4 old and the 5 new leaves")
	for _, d := range as {
		if d.Spent {
			vh.Assert(vh.And(!d.Created, s2.Elements.containsSpentSiacoinElement(d.SiacoinElement.Copy())), "spent siacoin parent does not verify as spent in the child state")
		} else {
			vh.Assert(vh.And(d.Created, s2.Elements.containsUnspentSiacoinElement(d.SiacoinElement.Copy())), "created siacoin element does not verify in the child state")
		}
	}
	for _, d := range af {
		if d.Spent {
			vh.Assert(s2.Elements.containsSpentSiafundElement(d.SiafundElement.Copy()), "spent siafund parent does not verify as spent in the child state")
		} else {
			vh.Assert(s2.Elements.containsUnspentSiafundElement(d.SiafundElement.Copy()), "created siafund element does not verify in the child state")
		}
	}
	vh.Assert(s2.Elements.containsChainIndex(au.ChainIndexElement()), "new chain index element does not verify in the child state")
	by2, by3 := gs[2].fce, gs[3].cie
	by2.StateElement, by3.StateElement = proofOf(2), proofOf(3)
	au.UpdateElementProof(&by2.StateElement)
	au.UpdateElementProof(&by3.StateElement)
	vh.Assert(vh.And(s2.Elements.containsUnresolvedV2FileContractElement(by2.Copy()), s2.Elements.containsChainIndex(by3.Copy())), "tracked bystander does not verify in the child state after the update")

	// after the revert
	ru.UpdateElementProof(&by2.StateElement)
	ru.UpdateElementProof(&by3.StateElement)
	vh.Assert(vh.And(vhProofEq(by2.StateElement.MerkleProof, f0.proofs[2]), vhProofEq(by3.StateElement.MerkleProof, f0.proofs[3])), "tracked bystander's proof is not restored by the revert")
	for _, d := range rs {
		if d.Spent && !d.Created {
			vh.Assert(s.Elements.containsUnspentSiacoinElement(d.SiacoinElement.Copy()), "reverted siacoin parent does not verify as unspent in the parent state")
		}
	}
	for _, d := range rf {
		if d.Spent && !d.Created {
			vh.Assert(s.Elements.containsUnspentSiafundElement(d.SiafundElement.Copy()), "reverted siafund parent does not verify as unspent in the parent state")
		}
	}

	// apply again: identical
	s3, au3 := ApplyBlock(s, b, V1BlockSupplement{}, time.Unix(40600, 0))
	vh.Assert(vh.And(vh.Eq(s3, s2), vh.Eq(au3.SiacoinElementDiffs(), au.SiacoinElementDiffs()), vh.Eq(au3.SiafundElementDiffs(), au.SiafundElementDiffs())), "re-applying the block after the revert gives a different state or diffs")
	vh.Reach("end")
}
