// Package vh, native twin: used to replay solver counterexamples against the
// real build and for translator validation. Inputs come from the JSON vector
// named by $VH_REPLAY ({"model": {name: "0x.."}}); missing names read as zero,
// or as pseudo-random values when $VH_RANDOM_SEED is set.
package vh

import (
	"crypto/ed25519"
	"crypto/sha256"
	"encoding/json"
	"fmt"
	"math/big"
	"os"
	"reflect"
	"strconv"
	"time"
	"unsafe"
)

type vector struct {
	Model  map[string]string `json:"model"`
	Params map[string]int    `json:"params"`
}

var (
	vec    vector
	loaded bool
	rng    uint64
	random bool
	// Trace collects observable events of the run.
	Trace []string
)

func load() {
	if loaded {
		return
	}
	loaded = true
	vec.Model = map[string]string{}
	vec.Params = map[string]int{}
	if f := os.Getenv("VH_REPLAY"); f != "" {
		data, err := os.ReadFile(f)
		if err != nil {
			panic(err)
		}
		if err := json.Unmarshal(data, &vec); err != nil {
			panic(err)
		}
		if vec.Model == nil {
			vec.Model = map[string]string{}
		}
		if vec.Params == nil {
			vec.Params = map[string]int{}
		}
	}
	if s := os.Getenv("VH_RANDOM_SEED"); s != "" {
		v, _ := strconv.ParseUint(s, 10, 64)
		rng = v*2862933555777941757 + 3037000493
		random = true
	}
}

// ResetRandom restarts input generation with pseudo-random values from seed.
func ResetRandom(seed uint64) {
	load()
	vec.Model = map[string]string{}
	Recorded = map[string]string{}
	Trace = nil
	rng = seed*2862933555777941757 + 3037000493
	random = true
}

func nextRand() uint64 {
	rng ^= rng << 13
	rng ^= rng >> 7
	rng ^= rng << 17
	return rng
}

// Recorded returns the values drawn so far (used to hand the same vector to
// the engine in concrete mode).
var Recorded = map[string]string{}

func get(name string, bits int) *big.Int {
	load()
	if s, ok := vec.Model[name]; ok {
		v, ok := new(big.Int).SetString(s, 0)
		if !ok {
			panic("bad model value for " + name)
		}
		return v
	}
	v := new(big.Int)
	if random {
		for i := 0; i < bits; i += 64 {
			r := nextRand()
			// bias towards boundary values
			switch nextRand() % 8 {
			case 0:
				r = 0
			case 1:
				r = ^uint64(0)
			case 2:
				r = r % 4
			}
			v.Lsh(v, 64)
			v.Or(v, new(big.Int).SetUint64(r))
		}
		if bits > 0 {
			m := new(big.Int).Lsh(big.NewInt(1), uint(bits))
			v.Mod(v, m)
		} else {
			v.SetUint64(nextRand() & 1)
		}
	}
	vec.Model[name] = "0x" + v.Text(16)
	Recorded[name] = vec.Model[name]
	return v
}

func U64(name string) uint64 { return get(name, 64).Uint64() }
func I64(name string) int64  { return int64(get(name, 64).Uint64()) }
func Int(name string) int    { return int(get(name, 64).Uint64()) }
func U32(name string) uint32 { return uint32(get(name, 32).Uint64()) }
func U16(name string) uint16 { return uint16(get(name, 16).Uint64()) }
func U8(name string) uint8   { return uint8(get(name, 8).Uint64()) }
func Bool(name string) bool  { return get(name, 0).Sign() != 0 }

func Bytes(name string, n int) []byte {
	if n == 0 {
		return nil
	}
	return get(name, 8*n).FillBytes(make([]byte, n))
}

// AssumeFailed is the panic value when an assumption does not hold natively.
type AssumeFailed struct{}

// AssertFailed is the panic value of a failed assertion.
type AssertFailed struct{ Msg string }

func Assume(c bool) {
	if !c {
		panic(AssumeFailed{})
	}
}

func Assert(c bool, msg string) {
	if !c {
		Trace = append(Trace, "assert-failed: "+msg)
		panic(AssertFailed{msg})
	}
	Trace = append(Trace, "assert-ok: "+msg)
}

func Reach(tag string) { Trace = append(Trace, "reach: "+tag) }

func ReachIf(cond bool, tag string) {
	if cond {
		Reach(tag)
	}
}

func Choice(name string, n int) int {
	v := get(name, 64).Uint64()
	if random {
		v %= uint64(n)
		vec.Model[name] = fmt.Sprintf("0x%x", v)
		Recorded[name] = vec.Model[name]
	}
	if v >= uint64(n) {
		panic(AssumeFailed{})
	}
	return int(v)
}

func Param(name string, def int) int {
	load()
	if v, ok := vec.Params[name]; ok {
		return v
	}
	return def
}

func Panics(f func()) (p bool) {
	defer func() {
		if r := recover(); r != nil {
			switch r.(type) {
			case AssumeFailed, AssertFailed:
				panic(r)
			}
			p = true
		}
	}()
	f()
	return false
}

func And(c ...bool) bool {
	for _, b := range c {
		if !b {
			return false
		}
	}
	return true
}

func Or(c ...bool) bool {
	for _, b := range c {
		if b {
			return true
		}
	}
	return false
}

func Implies(a, b bool) bool { return !a || b }
func Not(a bool) bool        { return !a }
func Ite64(c bool, a, b uint64) uint64 {
	if c {
		return a
	}
	return b
}
func Note(msg string)     {}
func TrackWrites(on bool) {}
func MarkCaller(v any)    {}
func NoPanic()            {}

var timeType = reflect.TypeOf(time.Time{})

func settable(v reflect.Value) reflect.Value {
	if v.CanSet() {
		return v
	}
	return reflect.NewAt(v.Type(), unsafe.Pointer(v.UnsafeAddr())).Elem()
}

// Fill mirrors the engine's naming scheme.
func Fill(name string, p any) {
	v := reflect.ValueOf(p)
	if v.Kind() != reflect.Ptr {
		panic("vh.Fill needs a pointer")
	}
	fill(name, v.Elem())
}

func fill(name string, v reflect.Value) {
	v = settable(v)
	if isTime(v.Type()) {
		s := get(name, 64).Uint64()
		v.Set(reflect.ValueOf(time.Unix(int64(s), 0)).Convert(v.Type()))
		return
	}
	switch v.Kind() {
	case reflect.Uint8, reflect.Uint16, reflect.Uint32, reflect.Uint64, reflect.Uint, reflect.Uintptr:
		v.SetUint(get(name, int(v.Type().Size())*8).Uint64())
	case reflect.Int8, reflect.Int16, reflect.Int32, reflect.Int64, reflect.Int:
		bits := int(v.Type().Size()) * 8
		u := get(name, bits).Uint64()
		switch bits {
		case 8:
			v.SetInt(int64(int8(u)))
		case 16:
			v.SetInt(int64(int16(u)))
		case 32:
			v.SetInt(int64(int32(u)))
		default:
			v.SetInt(int64(u))
		}
	case reflect.Bool:
		v.SetBool(get(name, 0).Sign() != 0)
	case reflect.String:
		if n := v.Len(); n > 0 {
			v.SetString(string(get(name, 8*n).FillBytes(make([]byte, n))))
		}
	case reflect.Struct:
		for i := 0; i < v.NumField(); i++ {
			fill(name+"."+v.Type().Field(i).Name, v.Field(i))
		}
	case reflect.Array:
		n := v.Len()
		if n == 0 {
			return
		}
		if v.Type().Elem().Kind() == reflect.Uint8 {
			b := get(name, 8*n).FillBytes(make([]byte, n))
			for i := 0; i < n; i++ {
				v.Index(i).SetUint(uint64(b[i]))
			}
			return
		}
		for i := 0; i < n; i++ {
			fill(fmt.Sprintf("%s[%d]", name, i), v.Index(i))
		}
	case reflect.Slice:
		n := v.Len()
		if n == 0 {
			return
		}
		if v.Type().Elem().Kind() == reflect.Uint8 {
			b := get(name, 8*n).FillBytes(make([]byte, n))
			for i := 0; i < n; i++ {
				v.Index(i).SetUint(uint64(b[i]))
			}
			return
		}
		for i := 0; i < n; i++ {
			fill(fmt.Sprintf("%s[%d]", name, i), v.Index(i))
		}
	case reflect.Ptr:
		if !v.IsNil() {
			fill(name+".*", v.Elem())
		}
	case reflect.Interface:
		if v.IsNil() {
			return
		}
		e := v.Elem()
		if e.Kind() == reflect.Ptr {
			if !e.IsNil() {
				fill(name+".(*)", e.Elem())
			}
			return
		}
		tmp := reflect.New(e.Type()).Elem()
		tmp.Set(e)
		fill(name+".("+e.Type().Name()+")", tmp)
		v.Set(tmp)
	}
}

// Eq: deep structural equality, nil == empty slice, pointers followed, times
// by instant.
func Eq(a, b any) bool {
	if a == nil || b == nil {
		return a == nil && b == nil
	}
	va, vb := reflect.ValueOf(a), reflect.ValueOf(b)
	if va.Type() != vb.Type() {
		return false
	}
	return deepEq(va, vb)
}

func deepEq(a, b reflect.Value) bool {
	if isTime(a.Type()) {
		ta := *(*time.Time)(unsafe.Pointer(addr(a)))
		tb := *(*time.Time)(unsafe.Pointer(addr(b)))
		return ta.Equal(tb)
	}
	switch a.Kind() {
	case reflect.Struct:
		for i := 0; i < a.NumField(); i++ {
			if !deepEq(a.Field(i), b.Field(i)) {
				return false
			}
		}
		return true
	case reflect.Array:
		for i := 0; i < a.Len(); i++ {
			if !deepEq(a.Index(i), b.Index(i)) {
				return false
			}
		}
		return true
	case reflect.Slice:
		if a.Len() != b.Len() {
			return false
		}
		for i := 0; i < a.Len(); i++ {
			if !deepEq(a.Index(i), b.Index(i)) {
				return false
			}
		}
		return true
	case reflect.Ptr:
		if a.IsNil() || b.IsNil() {
			return a.IsNil() && b.IsNil()
		}
		return deepEq(a.Elem(), b.Elem())
	case reflect.Interface:
		if a.IsNil() || b.IsNil() {
			return a.IsNil() && b.IsNil()
		}
		if a.Elem().Type() != b.Elem().Type() {
			return false
		}
		return deepEq(a.Elem(), b.Elem())
	case reflect.Bool:
		return a.Bool() == b.Bool()
	case reflect.String:
		return a.String() == b.String()
	case reflect.Uint8, reflect.Uint16, reflect.Uint32, reflect.Uint64, reflect.Uint, reflect.Uintptr:
		return a.Uint() == b.Uint()
	case reflect.Int8, reflect.Int16, reflect.Int32, reflect.Int64, reflect.Int:
		return a.Int() == b.Int()
	case reflect.Func:
		return a.IsNil() && b.IsNil()
	}
	panic("vh.Eq: unsupported kind " + a.Kind().String())
}

func addr(v reflect.Value) unsafe.Pointer {
	if v.CanAddr() {
		return unsafe.Pointer(v.UnsafeAddr())
	}
	c := reflect.New(v.Type()).Elem()
	c.Set(v)
	return unsafe.Pointer(c.UnsafeAddr())
}

// RunReplay runs harness f and prints the outcome in a fixed format.
func RunReplay(name string, f func()) (outcome string) {
	defer func() {
		r := recover()
		switch t := r.(type) {
		case nil:
			outcome = "passed"
		case AssumeFailed:
			outcome = "assume-failed"
		case AssertFailed:
			outcome = "assert-failed: " + t.Msg
		default:
			outcome = fmt.Sprintf("panic: %v", r)
		}
		fmt.Printf("VH-REPLAY %s => %s\n", name, outcome)
	}()
	f()
	return
}

var shapers []reflect.Value

func RegisterShaper(f any) {
	v := reflect.ValueOf(f)
	for _, s := range shapers {
		if s.Type() == v.Type() {
			return
		}
	}
	shapers = append(shapers, v)
}

func Shape(p any, n int) {
	shape(reflect.ValueOf(p).Elem(), n, true)
}

func shape(v reflect.Value, n int, top bool) {
	v = settable(v)
	if isTime(v.Type()) {
		return
	}
	{
		for _, s := range shapers {
			if s.Type().In(0).Elem() == v.Type() {
				s.Call([]reflect.Value{v.Addr(), reflect.ValueOf(n)})
				return
			}
		}
	}
	switch v.Kind() {
	case reflect.Struct:
		for i := 0; i < v.NumField(); i++ {
			shape(v.Field(i), n, false)
		}
	case reflect.Array:
		if v.Type().Elem().Kind() == reflect.Uint8 {
			return
		}
		for i := 0; i < v.Len(); i++ {
			shape(v.Index(i), n, false)
		}
	case reflect.Slice:
		if n == 0 {
			v.Set(reflect.Zero(v.Type()))
			return
		}
		v.Set(reflect.MakeSlice(v.Type(), n, n))
		if v.Type().Elem().Kind() == reflect.Uint8 {
			return
		}
		for i := 0; i < n; i++ {
			shape(v.Index(i), n, false)
		}
	case reflect.Ptr:
		if Param("ptrnil", 0) == 1 {
			v.Set(reflect.Zero(v.Type()))
			return
		}
		v.Set(reflect.New(v.Type().Elem()))
		shape(v.Elem(), n, false)
	case reflect.String:
		if n > 0 {
			v.SetString(string(make([]byte, n)))
		}
	}
}

func isTime(t reflect.Type) bool {
	return t == timeType || (t.Kind() == reflect.Struct && t.ConvertibleTo(timeType) && timeType.ConvertibleTo(t))
}

func ForEach(p any, f any) {
	fv := reflect.ValueOf(f)
	forEach(reflect.ValueOf(p).Elem(), fv.Type().In(0).Elem(), fv)
}

func forEach(v reflect.Value, want reflect.Type, f reflect.Value) {
	v = settable(v)
	if v.Type() == want {
		f.Call([]reflect.Value{v.Addr()})
		return
	}
	if isTime(v.Type()) {
		return
	}
	switch v.Kind() {
	case reflect.Struct:
		for i := 0; i < v.NumField(); i++ {
			forEach(v.Field(i), want, f)
		}
	case reflect.Array, reflect.Slice:
		if v.Type().Elem().Kind() == reflect.Uint8 {
			return
		}
		for i := 0; i < v.Len(); i++ {
			forEach(v.Index(i), want, f)
		}
	case reflect.Ptr:
		if !v.IsNil() {
			forEach(v.Elem(), want, f)
		}
	case reflect.Interface:
		if v.IsNil() {
			return
		}
		e := v.Elem()
		if e.Kind() == reflect.Ptr {
			if !e.IsNil() {
				forEach(e.Elem(), want, f)
			}
			return
		}
		tmp := reflect.New(e.Type()).Elem()
		tmp.Set(e)
		forEach(tmp, want, f)
		v.Set(tmp)
	}
}

func SigOK(pk [32]byte, msg [32]byte, sig [64]byte) bool {
	return ed25519.Verify(pk[:], msg[:], sig[:])
}

// Sign: natively a signature can only be produced for keys the replay knows the
// seed of; harnesses that need real signatures derive pk from a seed with KeyFromSeed.
var seeds = map[[32]byte]ed25519.PrivateKey{}

func KeyFromSeed(seed [32]byte) (pk [32]byte) {
	priv := ed25519.NewKeyFromSeed(seed[:])
	copy(pk[:], priv[32:])
	seeds[pk] = priv
	return
}

func Sign(pk [32]byte, msg [32]byte) (sig [64]byte) {
	if priv, ok := seeds[pk]; ok {
		copy(sig[:], ed25519.Sign(priv, msg[:]))
	}
	return
}

func Sha256(pre [32]byte) [32]byte { return sha256.Sum256(pre[:]) }

func GenuineID(name string) [32]byte {
	seed := get(name, 64).Uint64()
	var b [8]byte
	for i := range b {
		b[i] = byte(seed >> (8 * i))
	}
	return sha256.Sum256(append([]byte("genuine-id:"), b[:]...))
}

func PanicMsg(f func()) (msg string) {
	defer func() {
		if r := recover(); r != nil {
			switch r.(type) {
			case AssumeFailed, AssertFailed:
				panic(r)
			}
			msg = fmt.Sprint(r)
			if msg == "" {
				msg = "panic"
			}
		}
	}()
	f()
	return ""
}

func WriteEvents() int { return 0 }
