// Package vh is the harness API. This is the stub the symbolic engine loads:
// every function is intercepted by the engine; bodies are never executed.
package vh

func U64(name string) uint64          { panic("vh stub") }
func I64(name string) int64           { panic("vh stub") }
func Int(name string) int             { panic("vh stub") }
func U32(name string) uint32          { panic("vh stub") }
func U16(name string) uint16          { panic("vh stub") }
func U8(name string) uint8            { panic("vh stub") }
func Bool(name string) bool           { panic("vh stub") }
func Bytes(name string, n int) []byte { panic("vh stub") }

// Fill makes every scalar leaf reachable from p (a pointer) symbolic, keeping
// slice lengths, pointer nil-ness and interface dynamic types as built.
func Fill(name string, p any) { panic("vh stub") }

func Assume(c bool)             { panic("vh stub") }
func Assert(c bool, msg string) { panic("vh stub") }
func Reach(tag string)          { panic("vh stub") }

// ReachIf: tag reached if cond can hold here (no fork of the path).
func ReachIf(cond bool, tag string) { panic("vh stub") }

// Choice forks: returns a concrete value in [0,n) on each path.
func Choice(name string, n int) int { panic("vh stub") }

// Param returns a run parameter (bounds), def if not set.
func Param(name string, def int) int { panic("vh stub") }

// Eq is deep structural equality (nil == empty slice, pointers followed).
func Eq(a, b any) bool { panic("vh stub") }

// Panics runs f and reports whether it panicked.
func Panics(f func()) bool { panic("vh stub") }

func And(c ...bool) bool               { panic("vh stub") }
func Or(c ...bool) bool                { panic("vh stub") }
func Implies(a, b bool) bool           { panic("vh stub") }
func Not(a bool) bool                  { panic("vh stub") }
func Ite64(c bool, a, b uint64) uint64 { panic("vh stub") }
func Note(msg string)                  { panic("vh stub") }
func TrackWrites(on bool)              { panic("vh stub") }
func MarkCaller(v any)                 { panic("vh stub") }
func NoPanic()                         { panic("vh stub") }

// Shape gives every slice reachable from p length n, allocates pointers, and
// gives strings length n; interfaces stay nil unless a shaper is registered.
func Shape(p any, n int) { panic("vh stub") }

// RegisterShaper registers f (a func(*T, int)) to shape values of type T found
// inside other values.
func RegisterShaper(f any) { panic("vh stub") }

// ForEach calls f (a func(*T)) on every value of type T reachable from p.
func ForEach(p any, f any) { panic("vh stub") }

// SigOK is ed25519 verification of a 32-byte message (ideal-signature model in the engine).
func SigOK(pk [32]byte, msg [32]byte, sig [64]byte) bool { panic("vh stub") }

// Sign returns the (unique, ideal) signature of msg under the key pair whose public key is pk.
func Sign(pk [32]byte, msg [32]byte) [64]byte { panic("vh stub") }

// Sha256 of a 32-byte preimage.
func Sha256(pre [32]byte) [32]byte { panic("vh stub") }

// GenuineID returns the ID of an element created by an earlier block (an
// ideal-hash output that no hash derived in the current step can equal).
func GenuineID(name string) [32]byte { panic("vh stub") }

// PanicMsg runs f and returns the panic message ("" if it did not panic).
func PanicMsg(f func()) string { panic("vh stub") }

// WriteEvents returns the number of stores to caller-owned (MarkCaller) or
// package-level memory observed while TrackWrites was on.
func WriteEvents() int { panic("vh stub") }
